#!/bin/sh
# ./runall.sh [quick|thorough]  - runs every registered check once, prints one summary line per property
cd "$(dirname "$0")" || exit 2
tier=${1:-quick}
rc=0
for p in C01 C02 C03 C04 C05 C06 C07 C08 C09 C10 C11 C12 C13 C14 C15 C16 C17 C18 C19 C20; do
  out=$(./check $p --tier $tier 2>&1); r=$?
  echo "$out" | grep "tier=$tier" | cut -c1-220
  echo "$out" | grep -c "^VIOLATION" | grep -v "^0$" | sed "s/^/   VIOLATION lines: /"
  echo "$out" | grep "^MACHINERY-ERROR" | cut -c1-300
  [ $r -ne 0 ] && rc=1
done
exit $rc
