"""Regenerates /verif/MANIFEST.json from the registry (run by hand after changing the set of claimed properties)."""
import json
import os
import subprocess
import sys

HERE = os.path.dirname(os.path.abspath(__file__))
sys.path.insert(0, HERE)
from claims import CLAIMS, NOT_APPLICABLE  # noqa

VERIF = os.path.dirname(HERE)


def main():
    hooks = subprocess.run(['git', '-C', '/repo', 'log', '--format=%H %s'], capture_output=True, text=True).stdout.splitlines()
    hook_commits = [ln.split()[0] for ln in hooks if 'verif hooks' in ln]
    props = [json.loads(ln)['id'] for ln in open(os.path.join(VERIF, 'properties.jsonl'))]
    m = {
        'version': 1,
        'setup_cmd': 'cd /verif && ./setup',
        'hooks': {
            'guard': 'WELL_ID_DLISWRITER_VERIF',
            'enable': 'environment variable WELL_ID_DLISWRITER_VERIF=1 set before dliswriter is imported (the ./check wrapper does it); '
                      'dliswriter is an editable install, so checks always run the current /repo working tree',
            'baseline_off_cmd': 'cd /repo && env -u WELL_ID_DLISWRITER_VERIF /venv/bin/python -m pytest -ra -q -p no:cacheprovider --timeout=900 --continue-on-collection-errors',
            'source_commits': hook_commits,
            'add_only': True,
        },
        'engines': [
            {'name': 'tlc', 'path': '/opt/veriftools/tla/tla2tools.jar', 'serves_properties': sorted(CLAIMS),
             'kind_free_text': 'TLC 1.8.0: model checking of the implementation-shaped models against the normative modules; trace validation of recorded executions (spec/TraceDlis.tla); model-vs-code drift (spec/TraceSeg.tla)'},
            {'name': 'driver', 'path': '/verif/harness/driver.py', 'serves_properties': sorted(CLAIMS),
             'kind_free_text': 'drives the real code of the /repo working tree in pristine forks with the guarded taps on, records traces'},
        ],
        'checks': [],
        'not_applicable': [{'property_id': p, 'reason': NOT_APPLICABLE[p]} for p in props if p not in CLAIMS],
        'notes': 'One TLA+ specification (spec/), two levels; Python observes, TLC judges. See DESIGN.md.',
    }
    for p in props:
        if p not in CLAIMS:
            continue
        c = CLAIMS[p]
        m['checks'].append({
            'property_id': p,
            'quick_cmd': f'./check {p} --tier quick',
            'thorough_cmd': f'./check {p} --tier thorough',
            'evidence_file': f'/verif/evidence/{p}.json',
            'replay_cmd_template': f'./check {p} --replay {{path}}',
            'engine': 'tlc',
            'level_claimed': {'category': 'model_checking', 'text': c['text'], 'design_ref': c['design_ref']},
            'level_note': c['note'],
            'technique': c['technique'],
        })
    missing = [p for p in props if p not in CLAIMS and p not in NOT_APPLICABLE]
    assert not missing, missing
    with open(os.path.join(VERIF, 'MANIFEST.json'), 'w') as f:
        json.dump(m, f, indent=1)
    print('claimed', len(m['checks']), 'not applicable', len(m['not_applicable']))


if __name__ == '__main__':
    main()
