"""Hand recorded traces to TLC (spec/TraceDlis.tla) and collect its verdicts."""
import json
import os
import re
from concurrent.futures import ThreadPoolExecutor

from lib import SPEC, MachineryError, extract_prints, new_run_dir, rm_run_dir, run_tlc


def _size(tr):
    n = 50
    for e in tr.get('events', []):
        f = e.get('file')
        if f:
            n += len(f.get('bytes', ())) * (2 + len(f.get('flushes', ())) if e.get('watch') else 2)
        n += 200
    return n


def split_batches(traces, jobs, max_bytes=400_000):
    """Greedy split into batches of bounded size, at least `jobs` batches when there is enough work."""
    total = sum(_size(t) for t in traces)
    target = max(20_000, min(max_bytes, total // max(1, jobs) + 1))
    batches, cur, cs = [], [], 0
    for t in traces:
        s = _size(t)
        if cur and cs + s > target:
            batches.append(cur)
            cur, cs = [], 0
        cur.append(t)
        cs += s
    if cur:
        batches.append(cur)
    return batches


def validate(traces, jobs=16, module='TraceDlis.tla', cfg='TraceDlis.cfg', keep=False):
    """Returns (verdicts: {trace id: {'clauses': [(clause, ei)], 'cnt': {...}}}, stats)."""
    traces = [t for t in traces if 'machinery_error' not in t]
    rundir = new_run_dir('val')
    stats = {'states': 0, 'distinct': 0, 'batches': 0, 'actions': {}, 'wall_s': 0.0}
    verdicts = {}
    try:
        batches = split_batches(traces, jobs)
        files = []
        for i, b in enumerate(batches):
            p = os.path.join(rundir, f'batch{i}.json')
            with open(p, 'w') as f:
                json.dump({'traces': b}, f, separators=(',', ':'))
            files.append(p)

        def one(p):
            return run_tlc(module, cfg, cwd=SPEC, workers=1, env={'TRACE_FILE': p}, timeout=3600,
                           metadir=p + '.meta', heap='3g', coverage=False)

        with ThreadPoolExecutor(max_workers=jobs) as ex:
            results = list(ex.map(one, files))
        for p, b, r in zip(files, batches, results):
            stats['batches'] += 1
            stats['states'] += r['states']
            stats['distinct'] += r['distinct']
            stats['wall_s'] += r['wall_s']
            for k, v in r['actions'].items():
                a = stats['actions'].get(k, [0, 0])
                stats['actions'][k] = [a[0] + v[0], a[1] + v[1]]
            if not r['completed']:
                raise MachineryError(f"TLC did not complete on {p}:\n{r['tail']}")
            for v in extract_prints(r['raw'], 'VERDICT'):
                cl = v[2][1] if isinstance(v[2], tuple) else []
                verdicts[v[1]] = {'clauses': sorted((c[0], c[1]) for c in cl), 'cnt': v[3]}
            missing = [t['id'] for t in b if t['id'] not in verdicts]
            if missing:
                raise MachineryError(f"no verdict for traces {missing[:5]} (batch {p}):\n{r['tail']}")
    finally:
        if not keep:
            rm_run_dir(rundir)
    return verdicts, stats
