"""The object classes as the *specification* sees them (transcribed from RP66 V1 ch. 5/6 and the developer guide;
DESIGN.md appendix D).  Used to generate scenarios and to label attributes; not derived from dliswriter's classes.

kind codes:  T text(ASCII)  I ident  N number (free code)  N16 number UNORM  NU number UVARI  NF number FDOUBL
             Dm dimension list  S status  DT date-time  R:<TYPE> reference (OBNAME)  R* reference (OBJREF)
             RT:<TYPE> reference or text  E:<enum> ident restricted/suggested by an enumeration  ANY numbers or text
suffix '+' multivalued, '++' multivalued and nested.
Each attribute: kwarg -> (python attribute name, LABEL, kind)
"""


def _a(kwarg, kind, attr=None, label=None):
    attr = attr or kwarg
    label = label or attr.strip('_').upper().replace('_', '-')
    return kwarg, (attr, label, kind)


CLASSES = {
    'origin': ('ORIGIN', 1, dict([
        _a('file_set_name', 'I'), _a('file_set_number', 'NU'), _a('file_number', 'NU'), _a('file_type', 'I'),
        _a('product', 'T'), _a('version', 'T'), _a('programs', 'T+'), _a('creation_time', 'DT'),
        _a('order_number', 'T'), _a('descent_number', 'N16'), _a('run_number', 'N16'), _a('well_id', 'T'),
        _a('well_name', 'T'), _a('field_name', 'T'), _a('producer_code', 'N16'), _a('producer_name', 'T'),
        _a('company', 'T'), _a('name_space_name', 'I'), _a('name_space_version', 'NU')])),
    'well_reference_point': ('WELL-REFERENCE', 1, dict([
        _a('permanent_datum', 'T'), _a('vertical_zero', 'T'), _a('permanent_datum_elevation', 'NF'),
        _a('above_permanent_datum', 'NF'), _a('magnetic_declination', 'NF'),
        _a('coordinate_1_name', 'T'), _a('coordinate_1_value', 'NF'), _a('coordinate_2_name', 'T'),
        _a('coordinate_2_value', 'NF'), _a('coordinate_3_name', 'T'), _a('coordinate_3_value', 'NF')])),
    'axis': ('AXIS', 2, dict([_a('axis_id', 'I'), _a('coordinates', 'ANY+'), _a('spacing', 'N')])),
    'channel': ('CHANNEL', 3, dict([
        _a('long_name', 'RT:LONG-NAME'), _a('properties', 'E:Property+'), _a('units', 'E:Unit'),
        _a('dimension', 'Dm'), _a('axis', 'R:AXIS+'), _a('element_limit', 'Dm'), _a('source', 'R*'),
        _a('minimum_value', 'NF+'), _a('maximum_value', 'NF+')])),
    'frame': ('FRAME', 4, dict([
        _a('description', 'T'), _a('channels', 'R:CHANNEL+'), _a('index_type', 'E:FrameIndexType'),
        _a('direction', 'I'), _a('spacing', 'N'), _a('encrypted', 'N8'), _a('index_min', 'N'), _a('index_max', 'N')])),
    'path': ('PATH', 4, dict([
        _a('frame_type', 'R:FRAME'), _a('well_reference_point', 'R:WELL-REFERENCE'), _a('value', 'R:CHANNEL+'),
        _a('borehole_depth', 'N'), _a('vertical_depth', 'N'), _a('radial_drift', 'N'), _a('angular_drift', 'N'),
        _a('time', 'N'), _a('depth_offset', 'N'), _a('measure_point_offset', 'N'), _a('tool_zero_offset', 'N')])),
    'zone': ('ZONE', 5, dict([_a('description', 'T'), _a('domain', 'E:ZoneDomain'), _a('maximum', 'DTN'), _a('minimum', 'DTN')])),
    'parameter': ('PARAMETER', 5, dict([
        _a('long_name', 'RT:LONG-NAME'), _a('dimension', 'Dm'), _a('axis', 'R:AXIS+'), _a('zones', 'R:ZONE+'),
        _a('values', 'ANY++')])),
    'equipment': ('EQUIPMENT', 5, dict([
        _a('trademark_name', 'T'), _a('status', 'S'), _a('eq_type', 'E:EquipmentType', attr='_type'),
        _a('serial_number', 'I'), _a('location', 'E:EquipmentLocation'), _a('height', 'N'), _a('length', 'N'),
        _a('minimum_diameter', 'N'), _a('maximum_diameter', 'N'), _a('volume', 'N'), _a('weight', 'N'),
        _a('hole_size', 'N'), _a('pressure', 'N'), _a('temperature', 'N'), _a('vertical_depth', 'N'),
        _a('radial_drift', 'N'), _a('angular_drift', 'N')])),
    'tool': ('TOOL', 5, dict([
        _a('description', 'T'), _a('trademark_name', 'T'), _a('generic_name', 'T'), _a('parts', 'R:EQUIPMENT+'),
        _a('status', 'S'), _a('channels', 'R:CHANNEL+'), _a('parameters', 'R:PARAMETER+')])),
    'computation': ('COMPUTATION', 5, dict([
        _a('long_name', 'RT:LONG-NAME'), _a('properties', 'E:Property+'), _a('dimension', 'Dm'), _a('axis', 'R:AXIS+'),
        _a('zones', 'R:ZONE+'), _a('values', 'N++'), _a('source', 'R?')])),
    'process': ('PROCESS', 5, dict([
        _a('description', 'T'), _a('trademark_name', 'T'), _a('version', 'T'), _a('properties', 'E:Property+'),
        _a('status', 'E:ProcessStatus'), _a('input_channels', 'R:CHANNEL+'), _a('output_channels', 'R:CHANNEL+'),
        _a('input_computations', 'R:COMPUTATION+'), _a('output_computations', 'R:COMPUTATION+'),
        _a('parameters', 'R:PARAMETER+'), _a('comments', 'T+')])),
    'splice': ('SPLICE', 5, dict([
        _a('output_channel', 'R:CHANNEL'), _a('input_channels', 'R:CHANNEL+'), _a('zones', 'R:ZONE+')])),
    'calibration_measurement': ('CALIBRATION-MEASUREMENT', 5, dict([
        _a('phase', 'E:CalibrationMeasurementPhase'), _a('measurement_source', 'R*'),
        _a('measurement_type', 'I', attr='type'), _a('dimension', 'Dm'), _a('axis', 'R:AXIS+'),
        _a('measurement', 'N++'), _a('sample_count', 'Ni'), _a('maximum_deviation', 'N++'),
        _a('standard_deviation', 'N++'), _a('begin_time', 'DTN'), _a('duration', 'N'), _a('reference', 'N++'),
        _a('standard', 'N++'), _a('plus_tolerance', 'N++'), _a('minus_tolerance', 'N++')])),
    'calibration_coefficient': ('CALIBRATION-COEFFICIENT', 5, dict([
        _a('label', 'I'), _a('coefficients', 'N+'), _a('references', 'N+'), _a('plus_tolerances', 'N+'),
        _a('minus_tolerances', 'N+')])),
    'calibration': ('CALIBRATION', 5, dict([
        _a('calibrated_channels', 'R:CHANNEL+'), _a('uncalibrated_channels', 'R:CHANNEL+'),
        _a('coefficients', 'R:CALIBRATION-COEFFICIENT+'), _a('measurements', 'R:CALIBRATION-MEASUREMENT+'),
        _a('parameters', 'R:PARAMETER+'), _a('method', 'I')])),
    'group': ('GROUP', 5, dict([
        _a('description', 'T'), _a('object_list', 'R*+'), _a('group_list', 'R:GROUP+')])),
    'message': ('MESSAGE', 6, dict([
        _a('message_type', 'I', attr='_type'), _a('time', 'DTN'), _a('borehole_drift', 'N'), _a('vertical_depth', 'N'),
        _a('radial_drift', 'N'), _a('angular_drift', 'N'), _a('text', 'T+')])),
    'comment': ('COMMENT', 6, dict([_a('text', 'T+')])),
    'no_format': ('NO-FORMAT', 8, dict([_a('consumer_name', 'I'), _a('description', 'T')])),
    'long_name': ('LONG-NAME', 9, dict([
        _a('general_modifier', 'T+'), _a('quantity', 'T'), _a('quantity_modifier', 'T+'), _a('altered_form', 'T'),
        _a('entity', 'T'), _a('entity_modifier', 'T+'), _a('entity_number', 'T'), _a('entity_part', 'T'),
        _a('entity_part_number', 'T'), _a('generic_source', 'T'), _a('source_part', 'T+'),
        _a('source_part_number', 'T+'), _a('conditions', 'T+'), _a('standard_symbol', 'T'), _a('private_symbol', 'T')])),
}

SET_TYPE = {k: v[0] for k, v in CLASSES.items()}
LR_TYPE = {v[0]: v[1] for v in CLASSES.values()}
LR_TYPE['FILE-HEADER'] = 0

# attributes the writer is documented to add on its own (C05: "the only additions are the documented write-time
# defaults")
ALLOWED_ADDITION = {
    'ORIGIN': {'FILE-ID', 'FILE-SET-NUMBER', 'CREATION-TIME', 'FIELD-NAME'},
    'CHANNEL': {'LONG-NAME', 'REPRESENTATION-CODE', 'DIMENSION', 'ELEMENT-LIMIT'},
    'FRAME': {'INDEX-MIN', 'INDEX-MAX', 'SPACING', 'DIRECTION'},
    'PARAMETER': {'DIMENSION'},
    'COMPUTATION': {'DIMENSION'},
    'CALIBRATION-MEASUREMENT': {'DIMENSION'},
}

DTYPE_CODE = {'int8': 12, 'int16': 13, 'int32': 14, 'uint8': 15, 'uint16': 16, 'uint32': 17, 'float32': 2, 'float64': 7}
