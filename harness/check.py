"""./check <property> [--tier quick|thorough] [--replay <file>]

Pipeline: A model checking (TLC, repository independent, cached on the spec digest)
          B scenario generation   C execution on the real code (pristine forks, hooks on)
          D trace validation by TLC (spec/TraceDlis.tla)      E decision, evidence, replay files.
Exit 0: property held on everything explored; 1: VIOLATION line(s); 2: machinery failure.
"""
import argparse
import hashlib
import json
import os
import sys
import time
import traceback

HERE = os.path.dirname(os.path.abspath(__file__))
sys.path.insert(0, HERE)

import lib  # noqa: E402
from lib import MachineryError, VERIF, log  # noqa: E402

EVID = os.environ.get('VERIF_EVIDENCE_DIR') or os.path.join(VERIF, 'evidence')     # (selftest runs against modified copies write elsewhere)
REPLAYS = os.path.join(VERIF, 'replays')
KNOWN = os.path.join(VERIF, 'known_findings.json')


def digest(obj):
    return hashlib.sha256(json.dumps(obj, sort_keys=True, separators=(',', ':')).encode()).hexdigest()[:16]


def load_known():
    try:
        with open(KNOWN) as f:
            return json.load(f).get('findings', [])
    except FileNotFoundError:
        return []


def meta_matches(pred, prog, clause, exc):
    if 'any' in pred:
        return any(meta_matches(dict(q, clause=pred.get('clause', q.get('clause'))), prog, clause, exc) for q in pred['any'])
    for k, want in pred.items():
        if k == 'clause':
            if clause != want and clause not in (want if isinstance(want, list) else [want]):
                return False
            continue
        if k == 'exc_prefix':
            if not (exc or '').startswith(want):
                return False
            continue
        have = prog.get('meta', {}).get(k)
        if isinstance(want, dict):
            if 'lt' in want and not (have is not None and have < want['lt']):
                return False
            if 'in' in want and have not in want['in']:
                return False
            continue
        if have != want:
            return False
    return True


def run_models(pid, tier, registry):
    """Stage A.  Returns (models summary, states, transitions, actions); raises MachineryError on a broken model."""
    out, states, trans, actions = [], 0, 0, {}
    for m in registry.get(pid, {}).get('models', []):
        cfg = m['cfg'][tier]
        kw = dict(workers=16, timeout=m.get('timeout', {}).get(tier, 3000), heap=m.get('heap', '12g'))
        kw.update(m.get('kw', {}).get(tier, {}))
        r = lib.model_cached(m['name'] + '-' + tier, m['module'], cfg, **kw)
        s = {'model': m['name'], 'module': m['module'], 'cfg': cfg, 'states': r['distinct'], 'transitions': r['states'],
             'depth': r['depth'], 'completed': r['completed'], 'violated': r['violated'], 'wall_s': r['wall_s'],
             'cached': r.get('cached', False)}
        out.append(s)
        if r['violated'] or not r['completed']:
            raise MachineryError(f"model {m['name']} ({cfg}) did not pass: violated={r['violated']} rc={r['rc']}\n{r.get('tail', '')[-1500:]}")
        if r['distinct'] < m.get('min_states', 1):
            raise MachineryError(f"vacuity: model {m['name']} explored only {r['distinct']} states")
        for a in m.get('must_cover', []):
            if r['actions'].get(a, (0, 0))[1] == 0:
                raise MachineryError(f"vacuity: action {a} of model {m['name']} was never taken")
        if m.get('apalache'):
            ap = lib.apalache_cached(m['apalache']['name'], m['apalache']['module'], m['apalache']['obligations'])
            s['apalache'] = ap
            if any(x['outcome'] == 'Error' for x in ap):
                raise MachineryError(f"Apalache refutes the inductive invariant of {m['apalache']['module']}: {ap}")
        states += r['distinct']
        trans += r['states']
        for k, v in r['actions'].items():
            actions[k] = list(v)
    return out, states, trans, actions


def relevant(pid, clause, prog):
    """Is this clause a violation of property pid?  C12 is composite (fail-closed over the fringe scenarios)."""
    if clause.startswith(pid + '.'):
        return True
    if pid == 'C15' and clause[:3] in ('C01', 'C02') and prog.get('meta', {}).get('kind') in ('size', 'tinyframe', 'tinynofmt', 'manylf'):
        return True      # "written successfully, using flagged padding where the format demands a minimum length": a file no strict reader accepts is not written successfully"
    if pid == 'C20' and prog.get('meta', {}).get('kind') == 'rejected' and clause in ('C15.Writable', 'C12.MustRaise', 'C14.HistoryIndependent'):
        return True      # "as if the call had never been made": the history without the rejected call is in process 2
    if pid == 'C20' and prog.get('meta', {}).get('kind') == 'writehist' and clause.startswith('C14.'):
        return True      # model histories with a refused assignment: the fresh process never makes the refused call
    if pid == 'C18' and prog.get('meta', {}).get('kind') == 'foreign' and clause in ('C07.RefResolves', 'C07.RefIsTarget'):
        return True      # "every ... reference ... appears in exactly the logical file it was added to"
    if pid == 'C14' and prog.get('meta', {}).get('kind') == 'afterdecorated' and clause in ('C15.Writable', 'C17.FlagDiscipline'):
        return True      # the same build is written by the fresh process: a refusal here is process history
    if pid == 'C06' and prog.get('meta', {}).get('kind') == 'identfile' and clause[:3] in ('C04', 'C05', 'C12'):
        return True      # the IDENT fields of set / object components are judged where they are decoded: by the component grammar
    if pid == 'C06' and prog.get('meta', {}).get('kind') == 'samplecodes' and clause in ('C03.SlotBytes', 'C08.FdataLength', 'C08.ChannelReprCode'):
        return True      # the codes of frame-data samples: decoded under the code the channel declares, consuming exactly the record
    if pid == 'C12' and prog.get('meta', {}).get('fringe') and clause[:3] in ('C01', 'C02', 'C03', 'C04', 'C05', 'C07', 'C08', 'C09', 'C16'):
        return True
    return False


def main(argv=None):
    ap = argparse.ArgumentParser()
    ap.add_argument('pid')
    ap.add_argument('--tier', default=os.environ.get('VERIF_TIER', 'quick'), choices=['quick', 'thorough'])
    ap.add_argument('--replay')
    ap.add_argument('--jobs', type=int, default=16)
    ap.add_argument('--keep', action='store_true')
    a = ap.parse_args(argv)
    t0 = time.time()
    pid, tier, seed = a.pid, a.tier, lib.seed()
    try:
        return _run(a, pid, tier, seed, t0)
    except MachineryError as e:
        print(f'MACHINERY-ERROR property={pid} {e}', flush=True)
        return 2
    except Exception:  # noqa
        print(f'MACHINERY-ERROR property={pid} unexpected:\n{traceback.format_exc()}', flush=True)
        return 2


def _run(a, pid, tier, seed, t0):
    from registry import REGISTRY
    import driver
    import scen
    import validate
    if pid not in REGISTRY:
        raise MachineryError(f'unknown property {pid}')
    reg = REGISTRY[pid]
    os.makedirs(EVID, exist_ok=True)
    os.makedirs(REPLAYS, exist_ok=True)
    if os.path.realpath(driver.repo_origin()) != os.path.realpath(os.path.join(lib.REPO, 'src')):
        raise MachineryError(f'dliswriter imported from {driver.repo_origin()}, not from {lib.REPO}/src')
    if not driver.HOOKS_OK:
        raise MachineryError('verification hooks are not enabled (WELL_ID_DLISWRITER_VERIF=1 and the hook commit are required)')

    # A ------------------------------------------------------------------------------------------------------
    if a.replay:
        with open(a.replay) as f:
            rp = json.load(f)
        programs = [rp['program']]
        models, states, trans, actions = [], 0, 0, {}
    else:
        models, states, trans, actions = run_models(pid, tier, REGISTRY)
        log(f'[{pid}] models: ' + ', '.join(f"{m['model']}={m['states']}st/{m['wall_s']}s{'(cached)' if m['cached'] else ''}" for m in models))
        # B --------------------------------------------------------------------------------------------------
        import scen2
        gens = dict(scen.GENERATORS)
        gens.update(scen2.GENERATORS2)
        import scen3
        gens.update(scen3.GENERATORS3)
        programs = gens[pid](tier, seed)
        for g in reg.get('extra_gen', []):
            programs = programs + g(tier, seed)
    ids = set()
    for p in programs:
        if p['id'] in ids:
            raise MachineryError(f"duplicate scenario id {p['id']}")
        ids.add(p['id'])
    log(f'[{pid}] {len(programs)} scenarios')
    # C ------------------------------------------------------------------------------------------------------
    t1 = time.time()
    tmp = lib.new_run_dir('exec')
    try:
        traces = driver.run_batch(programs, jobs=a.jobs, tmp=tmp)
        # the same scenarios once more in *warm* processes: a seed-dependent sample of the single-process programs, shuffled, in
        # groups that share one process each - what the library keeps between files (caches, class-level state) is inherited
        if not a.replay:
            import copy
            import random
            wrng = random.Random(f'warm-{pid}-{tier}-{seed}')
            single = [p for p in programs if not p.get('procs') and not p.get('tz') and p.get('meta', {}).get('kind') not in ('repofixture',)
                      and not any(st.get('op') == 'script' for st in p.get('steps', []))]
            sample = wrng.sample(single, min(len(single), 60 if tier == 'quick' else 600))
            warm = []
            for p in sample:
                q = copy.deepcopy(p)
                q['id'] = p['id'] + '#warm'
                q.setdefault('meta', {})['warm'] = True
                warm.append(q)
            if warm:
                traces = traces + driver.run_warm(warm, group=20, jobs=a.jobs, tmp=tmp)
                programs = programs + warm
    finally:
        lib.rm_run_dir(tmp)
    bad = [t for t in traces if 'machinery_error' in t]
    if bad:
        raise MachineryError(f"{len(bad)} scenarios failed in the harness, first: {bad[0]['id']}: {bad[0]['machinery_error']}")
    log(f'[{pid}] executed in {time.time() - t1:.1f}s')
    # drift: implementation-shaped models re-executed on the recorded inputs
    drift = []
    drift_stats = {'states': 0, 'distinct': 0}
    for d in reg.get('drift', []):
        dr, ds = d(programs, traces, a.jobs)
        drift.extend(dr)
        drift_stats['states'] += ds.get('states', 0)
        drift_stats['distinct'] += ds.get('distinct', 0)
    # D ------------------------------------------------------------------------------------------------------
    t2 = time.time()
    verdicts, vstats = validate.validate(traces, jobs=a.jobs, keep=a.keep)
    log(f'[{pid}] validated in {time.time() - t2:.1f}s ({vstats["states"]} states, {vstats["batches"]} batches)')
    totals = _sum_cnt(verdicts)
    for need in reg.get('must_cover_trace', []):
        if totals.get(need, 0) == 0:
            raise MachineryError(f'vacuity: trace counter {need} is zero: the clauses of this property were never exercised')
    # E ------------------------------------------------------------------------------------------------------
    known = [k for k in load_known() if k.get('status') == 'known' and k['property'] == pid]
    byid = {p['id']: p for p in programs}
    trace_by_id = {t['id']: t for t in traces}
    violations, known_seen = [], {}
    nontrivial = set()
    accepted = 0
    clause_hits = {}
    for tid_, v in verdicts.items():
        prog = byid[tid_]
        mine = [(c, ei) for (c, ei) in v['clauses'] if relevant(pid, c, prog)]
        if any(c.endswith('ClaimInconsistent') for c, _ in v['clauses']):
            raise MachineryError(f'scenario {tid_}: claim inconsistent with observation')
        if reg['nontrivial'](v['cnt'], prog):
            nontrivial.add(digest({k: prog[k] for k in prog if k not in ('id', 'meta')}))
        if not mine:
            accepted += 1
            continue
        for c, ei in mine:
            clause_hits[c] = clause_hits.get(c, 0) + 1
        exc = ''
        evs = trace_by_id[tid_]['events']
        for c, ei in mine:
            if 0 < ei <= len(evs):
                exc = evs[ei - 1].get('exc', '') or exc
        unmatched = []
        for c, ei in mine:
            hit = None
            for k in known:
                if meta_matches(k['match'], prog, c, exc):
                    hit = k
                    break
            if hit:
                known_seen.setdefault(hit['id'], {'finding': hit, 'n': 0})['n'] += 1
            else:
                unmatched.append((c, ei))
        if unmatched:
            violations.append((prog, trace_by_id[tid_], unmatched))
    # a model history whose fresh-process file was never compared with the history's (the two did not denote the same Canon): the
    # replay harness and the trace specification disagree about the specification - reported as drift, never silently vacuous
    for tid_, v in verdicts.items():
        if byid[tid_].get('meta', {}).get('kind') in ('writehist', 'defaultshist') and v['cnt'].get('cmp', 0) == 0 \
                and not any(c in ('C15.Writable',) for c, _ in v['clauses']):
            drift.append(f"{'WriteHistory' if byid[tid_]['meta']['kind'] == 'writehist' else 'DerivedDefaults'}: scenario {tid_}: the file of the fresh process was not compared with the file of the history (different Canon)")
    # scenarios claimed valid whose write was refused, in a check that does not judge writability: not a violation of this property,
    # but either the generator is wrong or the library refuses a valid specification - said aloud (the C15 / C12 / C20 checks judge it)
    refused = sorted(tid_ for tid_, v in verdicts.items()
                     if any(c == 'C15.Writable' for c, _ in v['clauses']) and not any(c == 'C15.Writable' and relevant(pid, c, byid[tid_]) for c, _ in v['clauses']))
    wall = time.time() - t0
    out_lines = []
    for k in known_seen.values():
        out_lines.append(f"KNOWN-FINDING: property={pid} {k['finding']['what']} (seen in {k['n']} clause instance(s))")
    replay_paths = []
    for prog, tr, um in violations[:20]:
        path = os.path.join(REPLAYS, f"{pid}-{digest(prog)}.json")
        slim = {'id': tr['id'], 'events': [{k: (v if k != 'file' else {'bytes_len': len(v.get('bytes', []))}) for k, v in e.items()
                                           if k not in ('frames', 'caller')} for e in tr['events']][:60]}
        with open(path, 'w') as f:
            json.dump({'property': pid, 'clauses': um, 'program': prog, 'trace_summary': slim}, f)
        replay_paths.append(path)
        out_lines.append(f"VIOLATION property={pid} replay={path}")
        log(f"   clauses: {sorted(set(c for c, _ in um))} scenario {prog['id']} meta={prog.get('meta')}")
    for d in drift[:10]:
        out_lines.append(f"MODEL-DRIFT property={pid} {d}")
    if refused:
        out_lines.append(f"NOTE property={pid} {len(refused)} scenario(s) claimed valid were refused by the library (judged by C15, not by this check): {', '.join(refused[:5])}")
    samples = []
    for p in programs[:: max(1, len(programs) // 3)][:3]:
        s = json.dumps({'id': p['id'], 'meta': p.get('meta'), 'steps': p.get('steps') or p.get('procs')})
        samples.append(json.loads(s) if len(s) < 3000 else {'id': p['id'], 'meta': p.get('meta'), 'steps_truncated': s[:1500]})
    ev = {
        'property_id': pid, 'tier': tier, 'seed': seed, 'level': 'model_checking',
        'coverage': {
            'states': states + vstats['distinct'] + drift_stats['distinct'],
            'transitions': trans + vstats['states'] + drift_stats['states'],
            'model_states': states, 'model_transitions': trans,
            'trace_states': vstats['distinct'],
            'traces_validated_against_impl': accepted,
            'traces_total': len(verdicts),
            'evaluations': len(programs),
            'distinct_nontrivial': len(nontrivial),
            'rule': reg['rule'],
            'samples': samples,
            'exhaustive': bool(models) and not drift,
            'exhaustive_scope': reg.get('exhaustive_scope') or ('the implementation-shaped models listed under coverage.models, each within the constants of its .cfg file '
                                                                '(the scenario set executed on the code is a sample, except the enumerated DlisModel histories)' if models else ''),
            'models': models,
            'model_actions': {k: v for k, v in actions.items() if not k.endswith('.Init')},
            'model_drift': bool(drift), 'drift_cases': len(drift),
            'known_findings_seen': [k['finding']['id'] for k in known_seen.values()],
            'clause_hits': clause_hits,
            'counters': _sum_cnt(verdicts),
            'repo_digest': lib.repo_digest(), 'spec_digest': lib.spec_digest(),
        },
        'assumptions': reg.get('assumptions', []),
        'wall_s': round(wall, 2),
        'violations': len(violations),
    }
    if not a.replay:
        with open(os.path.join(EVID, f'{pid}.json'), 'w') as f:
            json.dump(ev, f, indent=1)
    for ln in out_lines:
        print(ln, flush=True)
    print(f"[{pid}] tier={tier} seed={seed} scenarios={len(programs)} accepted={accepted} violations={len(violations)} "
          f"known={sum(k['n'] for k in known_seen.values())} drift={len(drift)} states={ev['coverage']['states']} wall={wall:.1f}s", flush=True)
    return 1 if violations else 0


def _sum_cnt(verdicts):
    tot = {}
    for v in verdicts.values():
        for k, x in v['cnt'].items():
            tot[k] = tot.get(k, 0) + x
    return tot


if __name__ == '__main__':
    sys.exit(main())
