"""Shared infrastructure of the verification harness: paths, TLC runner, TLA+ value parser, digests.

Python observes, TLC judges: nothing in this file decides whether a property holds.
"""
import hashlib
import json
import os
import re
import shutil
import subprocess
import sys
import time

VERIF = os.path.dirname(os.path.dirname(os.path.abspath(__file__)))
REPO = os.environ.get('VERIF_REPO', '/repo')
SPEC = os.path.join(VERIF, 'spec')
WORK = os.path.join(VERIF, '.work')
CACHE = os.path.join(WORK, 'cache')
PY = '/venv/bin/python'
GUARD = 'WELL_ID_DLISWRITER_VERIF'
TLA_CP = '/opt/veriftools/tla/tla2tools.jar:/opt/veriftools/tla/CommunityModules-deps.jar'


def seed():
    try:
        return int(os.environ.get('VERIF_SEED', '0'))
    except ValueError:
        return 0


def sha_files(root, suffixes):
    h = hashlib.sha256()
    for d, dn, fn in sorted(os.walk(root)):
        dn.sort()
        if '__pycache__' in d:
            continue
        for f in sorted(fn):
            if f.endswith(suffixes):
                p = os.path.join(d, f)
                h.update(os.path.relpath(p, root).encode())
                with open(p, 'rb') as fh:
                    h.update(fh.read())
    return h.hexdigest()


def repo_digest():
    return sha_files(os.path.join(REPO, 'src', 'dliswriter'), ('.py',))


def spec_digest():
    return sha_files(SPEC, ('.tla', '.cfg'))


def harness_digest():
    return sha_files(os.path.join(VERIF, 'harness'), ('.py',))


def new_run_dir(tag):
    d = os.path.join(WORK, f"{tag}-{os.getpid()}-{int(time.time() * 1000) % 10 ** 9}")
    os.makedirs(d, exist_ok=True)
    return d


def rm_run_dir(d):
    if d and d.startswith(WORK) and os.path.isdir(d):
        shutil.rmtree(d, ignore_errors=True)


class MachineryError(Exception):
    """Something in the verification machinery failed (exit code 2, never a verdict)."""


# ----------------------------------------------------------------------------------------------------------------------
# TLA+ value parser (for PrintT output and simulation traces)
# ----------------------------------------------------------------------------------------------------------------------
_tok = re.compile(r'\s*(<<|>>|\|->|:>|@@|\[|\]|\{|\}|\(|\)|,|"(?:[^"\\]|\\.)*"|-?\d+|[A-Za-z_][A-Za-z0-9_]*)')


def extract_prints(out, tag):
    """Find every (possibly multi-line, pretty-printed) tuple << "tag", ... >> in TLC output; returns parsed values."""
    vals = []
    pat = re.compile(r'<<\s*"' + re.escape(tag) + '"')
    pos = 0
    while True:
        m = pat.search(out, pos)
        if not m:
            break
        # bracket matching from m.start()
        toks = []
        i = m.start()
        depth = 0
        while i < len(out):
            mm = _tok.match(out, i)
            if not mm:
                break
            tk = mm.group(1)
            toks.append(tk)
            i = mm.end()
            if tk in ('<<', '[', '{', '('):
                depth += 1
            elif tk in ('>>', ']', '}', ')'):
                depth -= 1
                if depth == 0:
                    break
        try:
            v, _ = _parse(toks, 0)
            vals.append(v)
        except Exception:  # noqa
            pass
        pos = i
    return vals


def tla_parse(text):
    toks = []
    pos = 0
    text = text.strip()
    while pos < len(text):
        m = _tok.match(text, pos)
        if not m:
            raise ValueError(f"cannot tokenise TLA+ value at {text[pos:pos + 40]!r}")
        toks.append(m.group(1))
        pos = m.end()
    val, i = _parse(toks, 0)
    if i != len(toks):
        raise ValueError("trailing tokens in TLA+ value")
    return val


def _parse(t, i):
    v, i = _parse1(t, i)
    # function constructors  a :> b @@ c :> d
    if i < len(t) and t[i] == ':>':
        d = {}
        while True:
            val, i = _parse1(t, i + 1)
            d[v if not isinstance(v, list) else tuple(v)] = val
            if i < len(t) and t[i] == '@@':
                v, i = _parse1(t, i + 1)
                assert t[i] == ':>'
                continue
            break
        return d, i
    return v, i


def _parse1(t, i):
    x = t[i]
    if x == '<<':
        out = []
        i += 1
        while t[i] != '>>':
            v, i = _parse(t, i)
            out.append(v)
            if t[i] == ',':
                i += 1
        return out, i + 1
    if x == '{':
        out = []
        i += 1
        while t[i] != '}':
            v, i = _parse(t, i)
            out.append(v)
            if t[i] == ',':
                i += 1
        return ('set', out), i + 1
    if x == '(':
        v, i = _parse(t, i + 1)
        assert t[i] == ')'
        return v, i + 1
    if x == '[':
        d = {}
        i += 1
        while t[i] != ']':
            k = t[i]
            assert t[i + 1] == '|->', t[i:i + 3]
            v, i = _parse(t, i + 2)
            d[k] = v
            if t[i] == ',':
                i += 1
        return d, i + 1
    if x.startswith('"'):
        return json.loads(x), i + 1
    if x == 'TRUE':
        return True, i + 1
    if x == 'FALSE':
        return False, i + 1
    if re.fullmatch(r'-?\d+', x):
        return int(x), i + 1
    return x, i + 1  # model value / identifier


# ----------------------------------------------------------------------------------------------------------------------
# TLC runner
# ----------------------------------------------------------------------------------------------------------------------
_cov_re = re.compile(r'^<(\w+) line (\d+), col \d+ to line \d+, col \d+ of module (\w+)(?: \([\d ]+\))?>: (\d+)(?::(\d+))?')


def run_tlc(module, cfg, cwd=SPEC, workers=16, env=None, timeout=3600, metadir=None, extra=(), heap=None,
            simulate=None, depth=None, coverage=True, dfs=False):
    """Run TLC; returns a dict with counts, coverage per action, printed values and errors."""
    metadir = metadir or new_run_dir('tlcmeta')
    java = ['java', '-XX:+UseParallelGC']
    if heap:
        java.append(f'-Xmx{heap}')
    java.append('-Xss16m')
    if dfs:
        java.append('-Dtlc2.tool.queue.IStateQueue=StateDeque')
    cmd = java + ['-cp', TLA_CP, 'tlc2.TLC', '-workers', str(workers), '-metadir', metadir, '-noGenerateSpecTE']
    if coverage:
        cmd += ['-coverage', '1']
    if simulate:
        cmd += ['-simulate', simulate]
    if depth:
        cmd += ['-depth', str(depth)]
    cmd += list(extra) + ['-config', cfg, module]
    e = dict(os.environ)
    e.update(env or {})
    t0 = time.time()
    try:
        p = subprocess.run(cmd, cwd=cwd, env=e, stdout=subprocess.PIPE, stderr=subprocess.STDOUT, timeout=timeout,
                           text=True, errors='replace')
        out = p.stdout
        rc = p.returncode
        timed_out = False
    except subprocess.TimeoutExpired as ex:
        out = ex.stdout if isinstance(ex.stdout, str) else (ex.stdout or b'').decode(errors='replace')
        rc = -9
        timed_out = True
    finally:
        shutil.rmtree(metadir, ignore_errors=True)
    res = {'cmd': ' '.join(cmd), 'rc': rc, 'wall_s': round(time.time() - t0, 2), 'timed_out': timed_out,
           'states': 0, 'distinct': 0, 'depth': 0, 'actions': {}, 'prints': [], 'errors': [], 'violated': [],
           'completed': False}
    for line in out.splitlines():
        m = _cov_re.match(line)
        if m:
            name, _, mod, a, b = m.groups()
            # "<Action line..>: distinct:total" for actions; "<Init ...>: n:m"; variables have a single number
            if b is not None:
                key = f"{mod}.{name}"
                if m.group(0).rstrip().endswith(')>: %s:%s' % (a, b)):       # sub-action of a disjunction: sum up
                    prev = res['actions'].get(key, (0, 0))
                    res['actions'][key] = (prev[0] + int(a), prev[1] + int(b))
                else:
                    prev = res['actions'].get(key, (0, 0))
                    res['actions'][key] = (max(prev[0], int(a)), max(prev[1], int(b)))
            continue
        m = re.match(r'^(\d+) states generated, (\d+) distinct states found', line)
        if m:
            res['states'] = int(m.group(1))
            res['distinct'] = int(m.group(2))
            continue
        m = re.match(r'^The depth of the complete state graph search is (\d+)', line)
        if m:
            res['depth'] = int(m.group(1))
            continue
        m = re.match(r'^Error: Invariant (\w+) is violated', line)
        if m:
            res['violated'].append(m.group(1))
        m = re.match(r'^Error: Action property (\w+) is violated', line)
        if m:
            res['violated'].append(m.group(1))
        if line.startswith('Error:'):
            res['errors'].append(line)
        if 'Model checking completed. No error has been found.' in line:
            res['completed'] = True
    res['tail'] = '\n'.join([ln for ln in out.splitlines() if not ln.startswith(('  ', '<', 'Parsing', 'Semantic',
                                                                                    'Linting'))][-40:])
    res['raw'] = out
    return res


def model_cached(name, module, cfg, **kw):
    """Run a *model* (repository independent) TLC job; results are cached on the digest of /verif/spec."""
    os.makedirs(CACHE, exist_ok=True)
    key = hashlib.sha256((spec_digest() + module + cfg + json.dumps(kw, sort_keys=True)).encode()).hexdigest()[:24]
    path = os.path.join(CACHE, f'model-{name}-{key}.json')
    if os.environ.get('VERIF_NOCACHE') != '1' and os.path.exists(path):
        with open(path) as f:
            r = json.load(f)
        r['cached'] = True
        return r
    r = run_tlc(module, cfg, **kw)
    r.pop('raw', None)
    r['cached'] = False
    if r['completed'] or r['violated']:
        with open(path, 'w') as f:
            json.dump(r, f)
    prune_cache()
    return r


def prune_cache(limit=200):
    try:
        files = sorted((os.path.join(CACHE, f) for f in os.listdir(CACHE)), key=os.path.getmtime)
        for f in files[:-limit]:
            os.remove(f)
    except OSError:
        pass


def limbs(n):
    """Non-negative integer -> [hi, lo] base 65536 (hi unbounded)."""
    return [n >> 16, n & 0xFFFF]


def slimbs(n):
    """Signed integer -> {neg, hi, lo}."""
    a = abs(int(n))
    return {'neg': n < 0, 'hi': a >> 16, 'lo': a & 0xFFFF}


def blist(b):
    return list(bytes(b))


def log(*a):
    print(*a, file=sys.stderr, flush=True)


def run_apalache(module, init, inv, length, cwd=SPEC, timeout=240):
    """One Apalache obligation; returns 'NoError', 'Error' (counterexample / failure) or 'unavailable'."""
    out_dir = new_run_dir('apa')
    try:
        p = subprocess.run(['apalache-mc', 'check', f'--init={init}', f'--inv={inv}', f'--length={length}', f'--out-dir={out_dir}',
                            f'--run-dir={out_dir}', module], cwd=cwd, stdout=subprocess.PIPE, stderr=subprocess.STDOUT, text=True, timeout=timeout)
        if 'The outcome is: NoError' in p.stdout:
            return 'NoError'
        if 'The outcome is: Error' in p.stdout or 'violat' in p.stdout.lower():
            return 'Error'
        return 'unavailable'
    except (OSError, subprocess.TimeoutExpired):
        return 'unavailable'
    finally:
        rm_run_dir(out_dir)
        shutil.rmtree(os.path.join(cwd, '_apalache-out'), ignore_errors=True)


def apalache_cached(name, module, obligations):
    os.makedirs(CACHE, exist_ok=True)
    key = hashlib.sha256((spec_digest() + module + json.dumps(obligations)).encode()).hexdigest()[:24]
    path = os.path.join(CACHE, f'apalache-{name}-{key}.json')
    if os.environ.get('VERIF_NOCACHE') != '1' and os.path.exists(path):
        with open(path) as f:
            return json.load(f)
    res = [{'init': i, 'inv': v, 'length': n, 'outcome': run_apalache(module, i, v, n)} for (i, v, n) in obligations]
    if all(r['outcome'] != 'unavailable' for r in res):
        with open(path, 'w') as f:
            json.dump(res, f)
    return res

