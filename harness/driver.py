"""Drives the real dliswriter code (current /repo working tree) and records what happened.

A *program* is a JSON-able list of steps; running it yields a *trace*: the list of events with abstracted
arguments, outcomes and observations (file bytes, taps, flush states, caller buffers).  The driver never
judges: traces are handed to TLC (spec/TraceDlis.tla).

Every program runs in a pristine fork of a parent that has only imported dliswriter.
"""
import os
import sys

os.environ.setdefault('WELL_ID_DLISWRITER_VERIF', '1')
os.environ.setdefault('PYTHONDONTWRITEBYTECODE', '1')
os.environ.setdefault('PYTHONHASHSEED', '0')
sys.dont_write_bytecode = True

import io
import json
import logging
import multiprocessing as mp
import tempfile
import time
import traceback
import warnings

HERE = os.path.dirname(os.path.abspath(__file__))
if HERE not in sys.path:
    sys.path.insert(0, HERE)
from lib import REPO, WORK, blist, slimbs  # noqa: E402

_repo_src = os.path.join(REPO, 'src')
if _repo_src not in sys.path:
    sys.path.insert(0, _repo_src)

import numpy as np  # noqa: E402

logging.disable(logging.CRITICAL)
warnings.simplefilter('ignore')

import dliswriter  # noqa: E402
import dliswriter.file.writer as _W  # noqa: E402
from dliswriter.utils.internal import verif_hooks as _hooks  # noqa: E402

# the progress bar is part of the behaviour (it raises when more records are written than it was told to expect), so it is
# NOT replaced; its output goes to stderr, which every scenario child redirects to /dev/null (see _child)

HOOKS_OK = bool(getattr(_hooks, 'ENABLED', False))


def repo_origin():
    return os.path.dirname(os.path.dirname(os.path.abspath(dliswriter.__file__)))


class Tap:
    """Sink for lr-tap and flush-tap."""

    def __init__(self):
        self.lr = []
        self.flushes = []
        self.read_disk = False

    def __call__(self, kind, p):
        if kind == 'lr':
            t = p['lr_type']
            self.lr.append({'eflr': bool(p['is_eflr']), 'type': t[0] if len(t) else -1,
                            'body': blist(p['body']), 'cap': int(p['cap'])})
        elif kind == 'flush':
            rec = {'total': int(p['total_size'])}
            if self.read_disk:
                try:
                    with open(p['filename'], 'rb') as f:
                        rec['disk'] = blist(f.read())
                except OSError:
                    rec['disk'] = []
            self.flushes.append(rec)


def exc_text(e):
    return f"{type(e).__name__}: {str(e)[:200]}"


class FakeLR:
    """A logical record with given body bytes (drives DLISWriter below the EFLR/IFLR encoders)."""

    def __init__(self, body, type_byte, eflr):
        self.body = body
        self.type_byte = type_byte
        self.eflr = eflr

    def represent_as_bytes(self):
        from dliswriter.logical_record.core.logical_record import LogicalRecordBytes
        return LogicalRecordBytes(self.body, bytes([self.type_byte]), self.eflr)


def make_body(spec, idx):
    if 'hex' in spec:
        return bytes.fromhex(spec['hex'])
    n = spec['len']
    return bytes(((idx * 101 + i * 7) % 251) for i in range(1, n + 1))


def read_file(path):
    try:
        with open(path, 'rb') as f:
            return f.read()
    except OSError:
        return None


def op_lowwrite(step, ctx):
    from dliswriter.file.writer import DLISWriter
    from dliswriter.logical_record.misc import StorageUnitLabel
    vrl = step['vrl']
    recs = [(make_body(r, i + 1), r['type'], bool(r['eflr'])) for i, r in enumerate(step['recs'])]
    path = os.path.join(ctx['dir'], step.get('fname', 'low.dlis'))
    prior = step.get('prior')
    if prior is not None:
        with open(path, 'wb') as f:
            f.write(bytes((i * 13 + 5) % 256 for i in range(prior)))
    tap = Tap()
    tap.read_disk = bool(step.get('watch_disk'))
    _hooks.sinks.append(tap)
    oc = step.get('out_chunk')
    if step.get('out_chunk_float'):
        oc = float(oc)
    ev = {'op': 'lowwrite', 'vrl': vrl, 'out_chunk': int(step.get('out_chunk') or 0),
          'seq': step.get('seq', 1), 'setid': blist(step.get('setid', 'X').encode('latin-1')),
          'recs': [{'eflr': e, 'type': t, 'body': blist(b)} for b, t, e in recs],
          'prior': -1 if prior is None else prior, 'watch': tap.read_disk}
    try:
        w = DLISWriter(path, visible_record_length=vrl)
        w.write_storage_unit_label(StorageUnitLabel(step.get('setid', 'X'), step.get('seq', 1), vrl))
        w.write_logical_records([FakeLR(*r) for r in recs], output_chunk_size=oc)
        ev['outcome'] = 'ok'
        data = read_file(path)
        ev['file'] = {'bytes': blist(data or b''), 'total': int(w._byte_writer.total_size),
                      'tap': [{'eflr': x['eflr'], 'type': x['type'], 'body': x['body']} for x in tap.lr],
                      'flushes': tap.flushes}
    except Exception as e:  # noqa
        ev['outcome'] = 'raised'
        ev['exc'] = exc_text(e)
    finally:
        _hooks.sinks.remove(tap)
    return [ev]



# ----------------------------------------------------------------------------------------------------------------------
# high-level API interpreter
# ----------------------------------------------------------------------------------------------------------------------
import datetime as _dt
import hashlib
import struct

from objmodel import CLASSES, DTYPE_CODE


def cps(s):
    return [ord(c) for c in s]


def f64_bytes(x):
    return blist(struct.pack('>d', float(x)))


def num_abs(x):
    """Abstract a Python / numpy number: exact integer value (if any) and IEEE images (trusted conversions)."""
    fx = float(x)
    isint = (isinstance(x, (int, np.integer)) and not isinstance(x, bool)) or (fx == fx and fx not in (float('inf'), float('-inf')) and fx.is_integer() and abs(fx) < 2 ** 53)
    out = {'k': 'num', 'isint': bool(isint), 'f64': f64_bytes(fx), 'pt': type(x).__name__}
    out['iv'] = slimbs(int(x)) if isint else slimbs(0)
    with np.errstate(all='ignore'):
        f32 = np.float32(fx)
    out['f32ok'] = bool(float(f32) == fx or (fx != fx))
    out['f32'] = blist(struct.pack('>f', float(f32))) if (fx == fx) else blist(struct.pack('>f', float('nan')))
    return out


def dt_utc_fields(d):
    u = d.astimezone(_dt.timezone.utc)
    return {'k': 'dt', 'y': u.year, 'mo': u.month, 'd': u.day, 'h': u.hour, 'mi': u.minute, 's': u.second,
            'us': u.microsecond}


def to_py(v, ctx):
    """valspec -> the Python object handed to the API."""
    t = v['t']
    if t == 'int':
        return int(v['v'])
    if t == 'bool':
        return bool(v['v'])
    if t == 'float':
        return struct.unpack('>d', bytes.fromhex(v['bits']))[0]
    if t == 'np':
        return np.dtype(v['dtype']).type(v['v'])
    if t == 'str':
        return sys.intern(v['v'])      # like a literal in the caller's source: the same object as an equal literal inside the library
    if t == 'dt':
        tz = None
        if v.get('zone'):           # a named zone with daylight saving time: `fold` tells the two 02:30 of an autumn night apart
            import zoneinfo
            tz = zoneinfo.ZoneInfo(v['zone'])
        elif v.get('tzmin') is not None:
            tz = _dt.timezone(_dt.timedelta(minutes=v['tzmin']))
        return _dt.datetime(v['y'], v['mo'], v['d'], v['h'], v['mi'], v['s'], v.get('us', 0), tzinfo=tz, fold=v.get('fold', 0))
    if t == 'dtstr':
        return v['v']
    if t == 'ref':
        return ctx['objs'][v['obj']]
    if t == 'list':
        return [to_py(x, ctx) for x in v['v']]
    if t == 'tuple':
        return tuple(to_py(x, ctx) for x in v['v'])
    if t == 'ndarray':            # the values as a numpy array (1-D or nested)
        return np.array([to_py(x, ctx) for x in v['v']] if not v.get('nested') else [[to_py(y, ctx) for y in x['v']] for x in v['v']], dtype=v.get('dtype'))
    if t == 'enum':
        from dliswriter.utils import enums
        return getattr(getattr(enums, v['enum']), v['member'])
    if t == 'setup':
        from dliswriter import AttrSetup
        return AttrSetup(value=to_py(v['value'], ctx) if v.get('value') is not None else None,
                         units=to_py(v['units'], ctx) if v.get('units') is not None else None)
    if t == 'dict':
        if v.get('share') and v['share'] in ctx.setdefault('shared', {}):
            return ctx['shared'][v['share']]       # the very same dict object the program passed before
        d = {}
        if v.get('value') is not None:
            d['value'] = to_py(v['value'], ctx)
        if v.get('units') is not None:
            d['units'] = to_py(v['units'], ctx)
        if v.get('share'):
            ctx.setdefault('shared', {})[v['share']] = d
        return d
    if t == 'none':
        return None
    if t == 'object':
        return object()
    if t == 'bytes':
        return bytes.fromhex(v['hex'])
    if t == 'dtype':
        if v.get('as') == 'str':          # the dtype's name as a string ('float32')
            return v['v']
        if v.get('as') == 'char':         # its array-protocol string ('<i4')
            return np.dtype(v['v']).str
        if v.get('as') == 'pytype':       # the Python type numpy maps to it (float, int)
            return {'float64': float, 'int64': int}[v['v']]
        return np.dtype(v['v']) if v.get('as') == 'dtype' else getattr(np, v['v'])
    raise RuntimeError(f'unknown valspec {t}')


def abs_scalar(v, ctx):
    """valspec (scalar) -> abstract value for the specification (what the user *assigned*)."""
    t = v['t']
    if t in ('int', 'float', 'np', 'bool'):
        return num_abs(to_py(v, ctx))
    if t == 'str':
        return {'k': 'str', 's': cps(v['v'])}
    if t == 'enum':
        return {'k': 'str', 's': cps(to_py(v, ctx).value)}
    if t == 'dt':
        return dt_utc_fields(to_py(v, ctx))
    if t == 'dtstr':
        fmt = "%Y/%m/%d %H:%M:%S" if '/' in v['v'] else "%Y.%m.%d %H:%M:%S"
        return dt_utc_fields(_dt.datetime.strptime(v['v'], fmt))
    if t == 'ref':
        return {'k': 'ref', 'oid': ctx['oids'].get(v['obj'], 0)}
    return {'k': 'other', 't': t}


def flatten(v):
    if v['t'] in ('list', 'tuple', 'ndarray'):
        out = []
        for x in v['v']:
            out.extend(flatten(x))
        return out
    return [v]


def abs_attr(label, v, ctx, enum_name=None):
    """valspec of one keyword -> attribute expectation record."""
    val, units = v, None
    if v['t'] in ('setup', 'dict'):
        val, units = v.get('value'), v.get('units')
    rec = {'label': cps(label), 'has_val': val is not None and val['t'] != 'none', 'val': [], 'has_units': False,
           'units': [], 'judge': not v.get('nojudge', False), 'enum_ok': True}
    if rec['has_val']:
        rec['val'] = [abs_scalar(x, ctx) for x in flatten(val)]
    if units is not None and units['t'] != 'none':
        rec['has_units'] = True
        rec['units'] = cps(to_py(units, ctx).value if units['t'] == 'enum' else units['v'])
    if enum_name and rec['has_val']:
        # membership in the standard's enumerations is data of dliswriter.utils.enums (trusted), not a verdict
        from dliswriter.utils import enums
        members = {m.value for m in getattr(enums, enum_name)}
        rec['enum_ok'] = all(x['t'] == 'enum' or (x['t'] == 'str' and x['v'] in members) for x in flatten(val))
    return rec


def hc_flag():
    from dliswriter.configuration import global_config
    return bool(global_config.high_compat_mode)


def op_new_file(step, ctx):
    from dliswriter import DLISFile
    ev = {'op': 'new_file', 'fid': step['fid'], 'vrl': step.get('vrl', 8192), 'seq': step.get('seq', 1),
          'setid': cps(step.get('setid', 'MAIN-STORAGE-UNIT'))}
    try:
        kw = {}
        if 'vrl' in step:
            kw['max_record_length'] = step['vrl']
        if 'seq' in step:
            kw['sul_sequence_number'] = step['seq']
        if 'setid' in step:
            kw['set_identifier'] = step['setid']
        if step.get('label') == 'ready':
            # a ready-made StorageUnitLabel instance instead of the keywords
            from dliswriter.logical_record.misc.storage_unit_label import StorageUnitLabel
            lkw = {k2: kw[k1] for k1, k2 in (('max_record_length', 'max_record_length'), ('sul_sequence_number', 'sequence_number')) if k1 in kw}
            kw = {'storage_unit_label': StorageUnitLabel(kw.get('set_identifier', 'MAIN-STORAGE-UNIT'), **lkw)}
        ctx['files'][step['fid']] = DLISFile(**kw)
        ev['outcome'] = 'ok'
    except Exception as e:  # noqa
        ev['outcome'] = 'raised'
        ev['exc'] = exc_text(e)
    ev['hc'] = hc_flag()
    return [ev]


def num_text(v):
    """The decimal text of a number the user gave (True is the number 1); text stays text."""
    return str(int(v)) if isinstance(v, bool) else str(v)


def op_add_lf(step, ctx):
    ev = {'op': 'add_lf', 'fid': step['fid'], 'lf': step['lf'], 'fh_id': cps(step.get('fh_id', 'FILE-HEADER')),
          'fh_seq_dec': cps(num_text(step.get('fh_seq', 1)))}
    try:
        kw = {}
        if 'fh_id' in step:
            kw['fh_id'] = step['fh_id']
        if 'fh_seq' in step:
            kw['fh_sequence_number'] = step['fh_seq']
        if step.get('header') in ('ready', 'shared_set'):
            # a ready-made FileHeaderItem (the route the repository's tests use), optionally in the header set of another logical file
            from dliswriter.logical_record.eflr_types.file_header import FileHeaderItem, FileHeaderSet
            if step['header'] == 'shared_set':
                hs = ctx['lfs'][step['header_of']].file_header.parent
            else:
                hs = FileHeaderSet()
            kw = {'file_header': FileHeaderItem(step.get('fh_id', 'FILE-HEADER'), hs, sequence_number=step.get('fh_seq', 1))}
        elif step.get('header') == 'same_item':
            kw = {'file_header': ctx['lfs'][step['header_of']].file_header}
        ctx['lfs'][step['lf']] = ctx['files'][step['fid']].add_logical_file(**kw)
        ctx['lf_fid'][step['lf']] = step['fid']
        ev['outcome'] = 'ok'
    except Exception as e:  # noqa
        ev['outcome'] = 'raised'
        ev['exc'] = exc_text(e)
    ev['hc'] = hc_flag()
    return [ev]


def make_array(spec):
    """arrayspec -> (array handed to the API, base buffer owner for the before/after observation)."""
    dt = np.dtype(spec['dtype'])
    shape = tuple(spec['shape'])
    raw = bytes.fromhex(spec['hex'])
    base = np.frombuffer(raw, dtype=dt).reshape(shape).copy()
    lay = spec.get('layout', 'C')
    if lay == 'C':
        return base, base
    if lay == 'F':
        a = np.asfortranarray(base)
        return a, a
    if lay == 'readonly':
        base.setflags(write=False)
        return base, base
    if lay == 'strided':
        big = np.zeros((shape[0] * 2,) + shape[1:], dtype=dt)
        big[::2] = base
        big[1::2] = base[::-1] if shape[0] > 1 else base
        return big[::2], big
    if lay == 'view':
        big = np.zeros((shape[0] + 4,) + shape[1:], dtype=dt)
        big.view(np.uint8).reshape(-1)[:] = 0xA5
        big[2:2 + shape[0]] = base
        return big[2:2 + shape[0]], big
    raise RuntimeError(f'unknown layout {lay}')


def get_array(aid, ctx):
    if aid not in ctx['arrays']:
        a, owner = make_array(ctx['prog']['arrays'][aid])
        ctx['arrays'][aid] = (a, owner)
    return ctx['arrays'][aid][0]


def op_add(step, ctx):
    if step.get('only_if_raised') and step['only_if_raised'] in ctx['objs']:
        return []           # the call this one repeats was accepted: nothing to repeat
    cls = step['cls']
    set_type = CLASSES[cls][0]
    table = CLASSES[cls][2]
    lf = ctx['lfs'].get(step['lf'])
    oid = ctx['next_oid']
    ctx['next_oid'] += 1
    ev = {'op': 'add', 'fid': ctx['lf_fid'].get(step['lf'], 0), 'lf': step['lf'], 'cls': cps(set_type), 'oid': oid,
          'name': cps(step['name']) if isinstance(step['name'], str) else [],
          'has_setname': bool(step.get('set_name')), 'setname': cps(step.get('set_name') or ''),
          'origin': step.get('origin_reference') if step.get('origin_reference') is not None else -1,
          'attrs': [], 'has_data': False, 'soft_only': bool(step.get('soft_only'))}
    kw = {}
    try:
        for k, v in step.get('kw', {}).items():
            if k in table:
                kind = table[k][2].rstrip('+')
                ev['attrs'].append(abs_attr(table[k][1], v, ctx, kind[2:] if kind.startswith('E:') else None))
            kw[k] = to_py(v, ctx)
        if step.get('set_name') is not None:
            kw['set_name'] = step['set_name']
        if step.get('origin_reference') is not None:
            kw['origin_reference'] = step['origin_reference']
        if cls == 'channel':
            if step.get('data') is not None:
                kw['data'] = get_array(step['data'], ctx)
                ev['has_data'] = True
            if step.get('dataset_name') is not None:
                kw['dataset_name'] = step['dataset_name']
            if step.get('cast_dtype') is not None:
                kw['cast_dtype'] = to_py(step['cast_dtype'], ctx)
        for k, v in step.get('rawkw', {}).items():   # deliberately ill-typed arguments (rejected-call scenarios)
            kw[k] = to_py(v, ctx)
    except KeyError as e:
        ev['outcome'] = 'raised'
        ev['exc'] = 'harness: unresolved reference ' + str(e)
        ev['hc'] = hc_flag()
        ev['proj'] = {'copy': -1, 'origin': -1, 'dataset': []}
        return [ev]
    try:
        name = step['name'] if not isinstance(step['name'], dict) else to_py(step['name'], ctx)
        item = getattr(lf, 'add_' + cls)(name, **kw)
        ctx['objs'][step['ref']] = item
        ctx['oids'][step['ref']] = oid
        ctx['created'].append(item)
        ev['outcome'] = 'ok'
        orr = item.origin_reference
        ev['proj'] = {'copy': int(item.copy_number), 'origin': -1 if orr is None else int(orr),
                      'dataset': cps(item.dataset_name) if cls == 'channel' else []}
    except Exception as e:  # noqa
        ev['outcome'] = 'raised'
        ev['exc'] = exc_text(e)
        ev['proj'] = {'copy': -1, 'origin': -1, 'dataset': []}
    ev['hc'] = hc_flag()
    return [ev]


def op_set(step, ctx):
    """Later assignment: item.<attr>.value = v  /  item.<attr>.units = u  /  item.origin_reference = n."""
    ev = {'op': 'set', 'oid': ctx['oids'].get(step['obj'], 0), 'part': step['part'], 'label': [], 'val': [],
          'units': [], 'origin': -1, 'name': [], 'judge': True, 'enum_ok': True, 'soft_only': bool(step.get('soft_only'))}
    if step.get('enum') and step['part'] in ('value', 'units'):
        from dliswriter.utils import enums
        members = {m.value for m in getattr(enums, step['enum'])}
        ev['enum_ok'] = all(x['t'] == 'enum' or (x['t'] == 'str' and x['v'] in members) for x in flatten(step['val']))
    try:
        item = ctx['objs'][step['obj']]
        if step['part'] == 'origin_reference':
            ev['origin'] = step['v']
            item.origin_reference = step['v']
        elif step['part'] == 'cast_dtype':
            item.cast_dtype = to_py(step['val'], ctx)
        elif step['part'] == 'dataset_name':
            item.dataset_name = step['v']
        elif step['part'] == 'name':
            ev['name'] = cps(step['v'])
            item.name = step['v']
        else:
            attr = getattr(item, step['attr'])
            ev['label'] = cps(attr.label)
            if step['part'] == 'value':
                ev['val'] = [abs_scalar(x, ctx) for x in flatten(step['val'])]
                ev['judge'] = not step['val'].get('nojudge', False)
                if step.get('inplace'):
                    # the list the attribute hands out is extended in place; 'val' is the resulting list
                    attr.value.extend([to_py(x, ctx) for x in step['inplace']])
                else:
                    attr.value = to_py(step['val'], ctx)
            else:
                u = step['val']
                ev['units'] = cps(to_py(u, ctx).value if u['t'] == 'enum' else u['v'])
                attr.units = to_py(u, ctx)
        ev['outcome'] = 'ok'
    except Exception as e:  # noqa
        ev['outcome'] = 'raised'
        ev['exc'] = exc_text(e)
    ev['hc'] = hc_flag()
    return [ev]


def op_nofmt_data(step, ctx):
    p = step['payload']
    raw = bytes.fromhex(p['hex'])
    ev = {'op': 'nofmt_data', 'lf': step['lf'], 'oid': ctx['oids'].get(step['obj'], 0), 'kind': p['kind']}
    try:
        if p['kind'] == 'str':
            data = raw.decode('latin-1')
            ev['payload'] = [ord(c) for c in data]
        elif p['kind'] == 'bytearray':
            data = bytearray(raw)
            ev['payload'] = blist(raw)
        else:
            data = raw
            ev['payload'] = blist(raw)
        rec = ctx['lfs'][step['lf']].add_no_format_frame_data(ctx['objs'][step['obj']], data)
        ctx.setdefault('nfrecs', []).append(rec)
        ev['outcome'] = 'ok'
    except Exception as e:  # noqa
        ev['outcome'] = 'raised'
        ev['exc'] = exc_text(e)
        ev.setdefault('payload', [])
    ev['hc'] = hc_flag()
    return [ev]


def op_nofmt_replace(step, ctx):
    """rec.data = <new payload> for the idx-th accepted no-format record (1-based), between its creation and a write."""
    p = step['payload']
    raw = bytes.fromhex(p['hex'])
    ev = {'op': 'nofmt_replace', 'idx': step['idx'], 'kind': p['kind']}
    try:
        if p['kind'] == 'str':
            data = raw.decode('latin-1')
            ev['payload'] = [ord(c) for c in data]
        else:
            data = bytearray(raw) if p['kind'] == 'bytearray' else raw
            ev['payload'] = blist(raw)
        ctx['nfrecs'][step['idx'] - 1].data = data
        ev['outcome'] = 'ok'
    except Exception as e:  # noqa
        ev['outcome'] = 'raised'
        ev['exc'] = exc_text(e)
        ev.setdefault('payload', [])
    ev['hc'] = hc_flag()
    return [ev]


def op_hc(step, ctx):
    from dliswriter import high_compatibility_mode
    ev = {'op': step['op']}
    try:
        if step['op'] == 'hc_enter':
            cm = high_compatibility_mode()
            cm.__enter__()
            ctx['hc'].append(cm)
        elif step['op'] == 'hc_exit':
            ctx['hc'].pop().__exit__(None, None, None)
        elif step['op'] == 'hc_exit_exc':
            cm = ctx['hc'].pop()
            try:
                raise KeyError('scenario exception inside the context')
            except KeyError as exc:
                cm.__exit__(type(exc), exc, exc.__traceback__)
        ev['outcome'] = 'ok'
    except Exception as e:  # noqa
        ev['outcome'] = 'raised'
        ev['exc'] = exc_text(e)
    ev['hc'] = hc_flag()
    return [ev]


def op_hc_decorated(step, ctx):
    """Run sub-steps inside a function wrapped by high_compatibility_mode_decorator. With depth > 1 the decorated function
    calls itself (re-entered while running): one enter / exit event per level, the flag observed after each."""
    from dliswriter.utils.high_compatibility_mode import high_compatibility_mode_decorator
    events = []
    boom = step.get('raise_inside', False)
    depth = int(step.get('depth', 1))

    @high_compatibility_mode_decorator
    def body(level):
        events.append({'op': 'hc_enter', 'outcome': 'ok', 'hc': hc_flag(), 'decorator': True})
        if level > 1:
            try:
                body(level - 1)
            finally:
                events.append({'op': 'hc_exit', 'outcome': 'ok', 'hc': hc_flag(), 'decorator': True})
            return
        for st in step['steps']:
            events.extend(OPS[st['op']](st, ctx))
        if boom:
            raise KeyError('scenario exception inside the decorated function')

    try:
        body(depth)
    except KeyError:
        pass
    events.append({'op': 'hc_exit', 'outcome': 'ok', 'hc': hc_flag(), 'decorator': True})
    return events


def be_bytes(a, cast):
    """Expected image of one row-slot: declared cast, big-endian, C order (numpy conversions are trusted)."""
    x = np.ascontiguousarray(a)
    if cast is not None:
        with np.errstate(all='ignore'):
            x = x.astype(cast)
    return blist(x.astype(x.dtype.newbyteorder('>')).tobytes())


def small_int(x):
    try:
        fx = float(x)
        if fx == fx and abs(fx) < 2 ** 20 and fx.is_integer():
            return True, int(fx)
    except Exception:  # noqa
        pass
    return False, 0


def wide_index(xs):
    """Integer index values beyond TLC's integers: the exact statistics as IEEE double images (exact below 2^53) and the signs
    of the consecutive differences.  Only sequences whose differences are all equal or clearly non-uniform (a sign change, or
    magnitudes a factor two apart) are offered for judgement; None otherwise."""
    try:
        v = []
        for x in xs:
            fx = float(x)
            if fx != fx or not fx.is_integer() or abs(fx) >= 2 ** 52:
                return None
            v.append(int(x))
    except Exception:  # noqa
        return None
    if not v:
        return None
    d = [b - a for a, b in zip(v, v[1:])]
    if d and len(set(d)) > 1:
        mags = [abs(x) for x in d]
        clear = (min(d) < 0 < max(d)) or min(mags) == 0 or max(mags) >= 2 * min(mags)
        if not clear:
            return None
    img = lambda n: blist(struct.pack('>d', float(n)))
    return {'ok': True, 'min': img(min(v)), 'max': img(max(v)), 'dimg': [img(x) for x in d], 'dsign': [(x > 0) - (x < 0) for x in d]}


def expected_frames(step, ctx, frm, to):
    out = []
    for fe in step.get('expect', []):
        chans = []
        arrs = []
        for c in fe['chans']:
            present = c.get('arr') is not None
            # from a pristine copy built from the program, never from the live array the writer has had its hands on
            a = make_array(ctx['prog']['arrays'][c['arr']])[0] if present else None
            cast = np.dtype(c['cast']) if c.get('cast') else None
            dtn = (cast or a.dtype).name if present else ''
            chans.append({'oid': ctx['oids'].get(c['ch'], 0), 'present': present,
                          'rows': int(a.shape[0]) if present and a.ndim > 0 else 0,
                          'ndim': int(a.ndim) if present else 0,
                          'dtype': cps(dtn), 'code': DTYPE_CODE.get(dtn, 0),
                          'srcsigned': bool(present and np.issubdtype((cast or a.dtype), np.signedinteger)),
                          'dims': [int(x) for x in a.shape[1:]] if present and a.ndim > 1 else [1]})
            arrs.append((a, cast))
        nowide = {'ok': False, 'min': [], 'max': [], 'dimg': [], 'dsign': []}
        rec = {'oid': ctx['oids'].get(fe['frame'], 0), 'chans': chans, 'rows': [], 'has_rows': False,
               'index': {'ok': False, 'vals': [], 'wide': nowide}}
        ok = all(c['present'] and c['code'] and 1 <= c['ndim'] <= 2 for c in chans) and len({c['rows'] for c in chans}) == 1
        if ok:
            n = chans[0]['rows']
            t = n if to is None else to
            if 0 <= frm < t <= n:
                rec['rows'] = [[be_bytes(a[i], cast) for a, cast in arrs] for i in range(frm, t)]
                rec['has_rows'] = True
                a0, cast0 = arrs[0]
                if a0.ndim == 1:
                    vals = [small_int((a0[i] if cast0 is None else a0[i].astype(cast0))) for i in range(frm, t)]
                    if all(v[0] for v in vals):
                        rec['index'] = {'ok': True, 'vals': [slimbs(v[1]) for v in vals], 'wide': nowide}
                    else:
                        rec['index']['wide'] = wide_index([(a0[i] if cast0 is None else a0[i].astype(cast0)) for i in range(frm, t)]) or nowide
        out.append(rec)
    return out


def snapshot_caller(ctx, extra_files):
    snap = []
    for aid, (a, owner) in sorted(ctx['arrays'].items()):
        snap.append({'id': aid, 'b': blist(np.ascontiguousarray(owner).view(np.uint8).reshape(-1).tobytes())
                     if owner.dtype.names is None else blist(owner.tobytes())})
    for name, path in extra_files:
        h = hashlib.sha256()
        try:
            with open(path, 'rb') as f:
                h.update(f.read())
        except OSError:
            pass
        snap.append({'id': name, 'b': blist(h.digest())})
    return snap


def build_data(step, ctx):
    """Build the `data` argument of write() according to the route; returns (data, files to watch, dict identity)."""
    d = step.get('data') or {'route': 'none'}
    route = d['route']
    if route == 'none':
        return None, [], None
    amap = d.get('map', {})     # dataset name -> array id
    if route == 'dict':
        if d.get('same_dict') and ctx.get('last_dict') is not None:
            # the caller keeps ONE dict object and changes its content between the writes
            dd = ctx['last_dict']
            dd.clear()
            dd.update({k: get_array(aid, ctx) for k, aid in amap.items()})
        else:
            dd = {k: get_array(aid, ctx) for k, aid in amap.items()}
        ctx['last_dict'] = dd
        return dd, [], dd
    if route == 'struct':
        fields = []
        arrs = {}
        for k, aid in amap.items():
            a = get_array(aid, ctx)
            arrs[k] = a
            fields.append((k, a.dtype) if a.ndim == 1 else (k, a.dtype, a.shape[1:]))
        n = min(a.shape[0] for a in arrs.values()) if arrs else 0
        sa = np.zeros(n, dtype=fields)
        for k, a in arrs.items():
            sa[k] = a[:n]
        ctx['arrays']['__struct__'] = (sa, sa)
        return sa, [], None
    if route == 'h5':
        import h5py
        path = os.path.join(ctx['dir'], d.get('fname', 'data.h5'))
        # written beside the target and moved into place: a source file of an earlier write is *replaced*, not rewritten
        with h5py.File(path + '.new', 'w') as f:
            for k, aid in amap.items():
                f.create_dataset(k, data=np.ascontiguousarray(get_array(aid, ctx)))
        os.replace(path + '.new', path)
        return path, [('h5file', path)], None
    if route == 'object':
        return object(), [], None
    raise RuntimeError('unknown route')


def op_write(step, ctx):
    o = step.get('opts', {})
    frm, to = o.get('from', 0), o.get('to')
    ev = {'op': 'write', 'fid': step['fid'],
          'opts': {'in_chunk': o.get('in_chunk') or 0, 'out_chunk': int(o.get('out_chunk') or 0),
                   'from': frm, 'to': -1 if to is None else to,
                   'route': (step.get('data') or {}).get('route', 'none')},
          'watch': bool(step.get('watch_disk')), 'prior': -1 if step.get('prior') is None else step['prior'],
          'fresh': bool(ctx.get('fresh')),
          'claim': {'valid': bool(step.get('valid', False)), 'mustraise': step.get('mustraise', ''),
                    'hc_breach': step.get('hc_breach', ''), 'either': bool(step.get('either', False))}}
    path = os.path.join(ctx['dir'], step.get('fname', f"out{step['fid']}.dlis"))
    if step.get('prior') is not None:
        with open(path, 'wb') as f:
            f.write(bytes((i * 13 + 5) % 256 for i in range(step['prior'])))
    try:
        data, watch_files, ddict = build_data(step, ctx)
        ev['frames'] = expected_frames(step, ctx, frm, to)
    except Exception as e:  # noqa
        ev['outcome'] = 'raised'
        ev['exc'] = 'harness: ' + exc_text(e)
        ev['frames'] = []
        ev['hc'] = hc_flag()
        ev['caller'] = {'before': [], 'after': [], 'keys_same': True}
        return [ev]
    before = snapshot_caller(ctx, watch_files)
    keys_before = list(ddict.keys()) if ddict is not None else []
    ids_before = [id(v) for v in ddict.values()] if ddict is not None else []
    tap = Tap()
    tap.read_disk = ev['watch']
    _hooks.sinks.append(tap)
    kw = {}
    if 'in_chunk' in o:
        kw['input_chunk_size'] = o['in_chunk']
    oc = o.get('out_chunk', 65536)
    kw['output_chunk_size'] = float(oc) if o.get('out_chunk_float') and oc is not None else oc
    if data is not None:
        kw['data'] = data
    if 'from' in o:
        kw['from_idx'] = frm
    if 'to' in o:
        kw['to_idx'] = to
    if o.get('as_path'):          # pathlib.Path objects instead of strings (output file, HDF5 source)
        import pathlib
        path = pathlib.Path(path)
        if isinstance(kw.get('data'), str):
            kw['data'] = pathlib.Path(kw['data'])
    try:
        ctx['files'][step['fid']].write(path, **kw)
        ev['outcome'] = 'ok'
        raw = read_file(path) or b''
        ev['file'] = {'bytes': blist(raw), 'total': tap.flushes[-1]['total'] if tap.flushes else -1,
                      'tap': [{'eflr': x['eflr'], 'type': x['type'], 'body': x['body']} for x in tap.lr],
                      'flushes': tap.flushes}
    except Exception as e:  # noqa
        ev['outcome'] = 'raised'
        ev['exc'] = exc_text(e)
    finally:
        _hooks.sinks.remove(tap)
    after = snapshot_caller(ctx, watch_files)
    ev['caller'] = {'before': before, 'after': after,
                    'keys_same': (ddict is None) or (list(ddict.keys()) == keys_before
                                                     and [id(v) for v in ddict.values()] == ids_before)}
    ev['hc'] = hc_flag()
    return [ev]


def op_encode(step, ctx):
    """Call the public write_struct dispatch (and optionally a helper) on one value."""
    from dliswriter.utils.internal.struct_writer import write_struct
    from dliswriter.utils.internal.internal_enums import RepresentationCode
    out = []
    for c in step['cases']:
        ev = {'op': 'encode', 'code': c['code'], 'val': c['abs']}
        try:
            code = RepresentationCode(c['code'] if c['code'] != 27 else 19)   # UNITS is written as IDENT by this writer
            v = c['py']
            if v['t'] == 'obname':
                class _P:
                    set_type = v.get('type', 'CHANNEL')

                class _O:
                    pass
                ob = _O()
                ob.origin_reference, ob.copy_number, ob.name, ob.parent = v['origin'], v['copy'], v['name'], _P()
                ob.obname = None
                if c['code'] == 24:
                    from dliswriter.utils.internal.struct_writer import write_struct_obname
                    ob.obname = write_struct_obname(ob)
                pyv = ob
            else:
                pyv = to_py(v, ctx)
            b = write_struct(code, pyv)
            ev['outcome'] = 'ok'
            ev['bytes'] = blist(b)
        except Exception as e:  # noqa
            ev['outcome'] = 'raised'
            ev['exc'] = exc_text(e)
            ev['bytes'] = []
        out.append(ev)
    return out


def op_attr(step, ctx):
    """One attribute of the shapes enumerated by spec/AttrEncoder.tla, built and written on its own."""
    from dliswriter.logical_record.core.attribute import Attribute, NumericAttribute
    from dliswriter.utils.internal.internal_enums import RepresentationCode
    out = []
    for c in step['cases']:
        ev = {'op': 'attr', 'mv': c['mv'], 'md': c['md'], 'given': c['given'], 'units': c['units'], 'code': c['code'],
              'kind': c['kind'], 'rejected': False, 'bytes': []}
        try:
            kw = {'multivalued': c['mv'], 'multidimensional': c['md']}
            if c['code'] == 'explicit':
                kw['representation_code'] = RepresentationCode.USHORT if c['kind'] == 'numeric' else RepresentationCode.ASCII
            a = (NumericAttribute if c['kind'] == 'numeric' else Attribute)('label', **kw)
            x = 7 if c['kind'] == 'numeric' else 'seven'
            val = {'none': None, 'scalar': x, 'empty': [], 'one': [x], 'two': [x, x], 'many': [x] * 130, 'nested': [[x, x], [x, x]]}[c['given']]
            try:
                if c['given'] != 'none':
                    a.value = val
            except Exception as e:  # noqa
                ev['rejected'] = True
                ev['exc'] = exc_text(e)
            if c['units']:
                a.units = 'm'
            ev['bytes'] = blist(b'\x00' if a.value is None else a.get_as_bytes())
            ev['outcome'] = 'ok'
        except Exception as e:  # noqa
            ev['outcome'] = 'raised'
            ev['exc'] = exc_text(e)
        out.append(ev)
    return out


def op_script(step, ctx):
    """Run a function of the repository's own fixture builders / examples under the recorder."""
    import importlib
    from recorder import Recorder
    helpers = {'num_abs': num_abs, 'dt_utc_fields': dt_utc_fields, 'be_bytes': be_bytes, 'hc_flag': hc_flag, 'Tap': Tap,
               'small_int': small_int, 'exc_text': exc_text, 'hooks': _hooks}
    rec = Recorder(ctx['dir'], helpers, inplace=bool(step.get('pytest')), max_file=step.get('max_file', 0))
    for extra in step.get('syspath', []):
        if extra not in sys.path:
            sys.path.insert(0, extra)
    for name in step.get('stub_modules', []):
        import types
        sys.modules.setdefault(name, types.ModuleType(name))
    args = []
    for a in step.get('args', []):
        if isinstance(a, dict) and a.get('t') == 'path':
            args.append(os.path.join(ctx['dir'], a['v']))
        elif isinstance(a, dict) and a.get('t') == 'arrays':
            args.append({k: get_array(aid, ctx) for k, aid in a['v'].items()})
        elif isinstance(a, dict) and a.get('t') == 'kwargs':
            args.append({k: {kk: to_py(vv, ctx) for kk, vv in v.items()} for k, v in a['v'].items()})
        else:
            args.append(a)
    ev = {'op': 'script', 'module': step.get('module', step.get('run_path', '')), 'func': step.get('func', '')}
    with rec:
        try:
            if step.get('pytest'):
                # the repository's own tests, unmodified, with the public API wrapped by the recorder
                import pytest
                sys.dont_write_bytecode = True
                os.environ['HDF5_USE_FILE_LOCKING'] = 'FALSE'
                cwd = os.getcwd()
                os.chdir(REPO)
                so, se = os.dup(1), os.dup(2)
                dn = os.open(os.devnull, os.O_WRONLY)
                os.dup2(dn, 1)
                os.dup2(dn, 2)
                try:
                    rc = pytest.main(['-q', '-x', '-p', 'no:cacheprovider', '--rootdir', REPO, '-W', 'ignore'] + [os.path.join(REPO, a) for a in step['pytest']])
                finally:
                    os.dup2(so, 1)
                    os.dup2(se, 2)
                    os.close(dn)
                    os.chdir(cwd)
                    logging.disable(logging.CRITICAL)
                ev['pytest_rc'] = int(rc)
                ev['skipped_files'] = rec.skipped
            elif step.get('run_path'):
                import runpy
                import types
                cl = types.ModuleType('coloredlogs')
                cl.install = lambda *a, **k: None
                sys.modules.setdefault('coloredlogs', cl)
                cwd = os.getcwd()
                os.chdir(ctx['dir'])
                try:
                    runpy.run_path(step['run_path'], run_name='__main__')
                finally:
                    os.chdir(cwd)
                    logging.disable(logging.CRITICAL)
            else:
                mod = importlib.import_module(step['module'])
                getattr(mod, step['func'])(*args)
            ev['outcome'] = 'ok'
        except Exception as e:  # noqa
            ev['outcome'] = 'raised'
            ev['exc'] = exc_text(e)
    ev['hc'] = hc_flag()
    return rec.events + [ev]


def op_set_sul(step, ctx):
    """Change a public attribute of the storage unit label of an existing DLISFile (between two writes)."""
    ev = {'op': 'set_sul', 'fid': step['fid'], 'field': step['field'], 'num': 0, 'text': []}
    try:
        sul = ctx['files'][step['fid']].storage_unit_label
        if step['field'] == 'set_identifier':
            ev['text'] = cps(step['v'])
        else:
            ev['num'] = int(step['v'])
        setattr(sul, step['field'], step['v'])
        ev['outcome'] = 'ok'
    except Exception as e:  # noqa
        ev['outcome'] = 'raised'
        ev['exc'] = exc_text(e)
    ev['hc'] = hc_flag()
    return [ev]


def op_probe(step, ctx):
    """Read public state of live objects (for the comparison with a model's projection); changes nothing."""
    vals = []
    for it in step['items']:
        try:
            v = ctx['objs'][it['obj']]
            for a in it['path']:
                v = getattr(v, a)
            if isinstance(v, float):
                v = 'nan' if v != v else repr(float(v))
            elif isinstance(v, (np.floating,)):
                v = 'nan' if v != v else repr(float(v))
            elif hasattr(v, 'value') and not isinstance(v, (int, str)):
                v = v.value
            vals.append(str(v))
        except Exception as e:  # noqa
            vals.append('raised ' + exc_text(e))
    return [{'op': 'probe', 'vals': vals, 'outcome': 'ok', 'hc': hc_flag()}]


def op_set_header(step, ctx):
    """lf.file_header.header_id = <str> / .sequence_number = <int> (public attributes of the header object), between two writes."""
    ev = {'op': 'set_header', 'lf': step['lf'], 'field': step['field'], 'text': cps(num_text(step['v']))}
    try:
        setattr(ctx['lfs'][step['lf']].file_header, step['field'], step['v'])
        ev['outcome'] = 'ok'
    except Exception as e:  # noqa
        ev['outcome'] = 'raised'
        ev['exc'] = exc_text(e)
    ev['hc'] = hc_flag()
    return [ev]


def op_mutate_array(step, ctx):
    """The caller changes one of its arrays in place between two writes; from now on the program holds the new content."""
    ev = {'op': 'mutate_array', 'aid': step['aid'], 'outcome': 'ok', 'hc': hc_flag()}
    try:
        live = get_array(step['aid'], ctx)
        new = np.frombuffer(bytes.fromhex(step['hex']), dtype=live.dtype).reshape(live.shape)
        live[...] = new
        spec = dict(ctx['prog']['arrays'][step['aid']])
        spec['hex'] = step['hex']
        ctx['prog']['arrays'][step['aid']] = spec            # later expectations are computed from the new content
    except Exception as e:  # noqa
        ev['outcome'] = 'raised'
        ev['exc'] = exc_text(e)
    return [ev]


def op_mark(step, ctx):
    return [{'op': 'mark', 'what': step.get('what', ''), 'outcome': 'ok', 'hc': hc_flag()}]


OPS = {'mark': op_mark, 'probe': op_probe, 'mutate_array': op_mutate_array, 'set_header': op_set_header, 'nofmt_replace': op_nofmt_replace, 'set_sul': op_set_sul, 'script': op_script, 'attr': op_attr, 'lowwrite': op_lowwrite, 'new_file': op_new_file, 'add_lf': op_add_lf, 'add': op_add, 'set': op_set,
       'nofmt_data': op_nofmt_data, 'hc_enter': op_hc, 'hc_exit': op_hc, 'hc_exit_exc': op_hc,
       'hc_decorated': op_hc_decorated, 'write': op_write, 'encode': op_encode}


def run_program(prog):
    """Run one (single-process) program in the current process and return its events."""
    if prog.get('tz'):
        os.environ['TZ'] = prog['tz']
        time.tzset()
    if prog.get('np_seed') is not None:
        np.random.seed(prog['np_seed'])
    events = []
    with tempfile.TemporaryDirectory(prefix='drv', dir=prog.get('_tmp') or None) as d:
        ctx = {'dir': d, 'objs': {}, 'oids': {}, 'files': {}, 'lfs': {}, 'lf_fid': {}, 'hc': [], 'arrays': {},
               'prog': prog, 'next_oid': prog.get('_oid0', 1), 'fresh': prog.get('_fresh', False), 'created': []}
        for step in prog['steps']:
            fn = OPS.get(step['op'])
            if fn is None:
                raise RuntimeError(f"unknown op {step['op']}")
            evs = fn(step, ctx)
            for e in evs:
                e['proc'] = prog.get('_proc', 1)
                if prog.get('_track'):
                    e['allproj'] = [[int(it.copy_number), -1 if it.origin_reference is None else int(it.origin_reference)]
                                    for it in ctx['created']]
            events.extend(evs)
        while ctx['hc']:   # leave any context still open (scenario ended inside it)
            ctx['hc'].pop().__exit__(None, None, None)
    return events


def _child(task):
    try:
        dn = os.open(os.devnull, os.O_WRONLY)
        os.dup2(dn, 2)
        os.close(dn)
    except OSError:
        pass
    try:
        if not HOOKS_OK:
            return {'machinery_error': 'hooks are not enabled in the imported dliswriter'}
        return {'events': run_program(task)}
    except BaseException as e:  # noqa
        return {'machinery_error': ''.join(traceback.format_exception(type(e), e, e.__traceback__))[-2000:]}


def run_batch(programs, jobs=16, tmp=None):
    """Run every program; each process of a program (`procs`, default one) runs in its own pristine fork.

    Returns the list of traces {'id', 'events'} in the order of `programs`."""
    if not programs:
        return []
    tasks, owner = [], []
    for pi, p in enumerate(programs):
        procs = p.get('procs') or [{'steps': p['steps']}]
        for k, pr in enumerate(procs):
            t = {'id': p['id'], 'steps': pr['steps'], 'arrays': p.get('arrays', {}), 'tz': p.get('tz'),
                 'np_seed': p.get('np_seed'), '_tmp': tmp, '_proc': k + 1, '_oid0': 1000 * k + 1,
                 '_track': bool(p.get('meta', {}).get('track_proj')),
                 '_fresh': bool(pr.get('fresh'))}
            tasks.append(t)
            owner.append(pi)
    ctx = mp.get_context('fork')
    with ctx.Pool(processes=min(jobs, max(1, len(tasks))), maxtasksperchild=1) as pool:
        res = pool.map(_child, tasks, chunksize=1)
    traces = [{'id': p['id'], 'flags': {'cmpproj': bool(p.get('meta', {}).get('cmpproj'))}, 'events': []} for p in programs]
    for pi, r in zip(owner, res):
        if 'machinery_error' in r:
            traces[pi]['machinery_error'] = r['machinery_error']
        else:
            traces[pi]['events'].extend(r['events'])
    return traces


if __name__ == '__main__':
    progs = json.load(sys.stdin)
    json.dump(run_batch(progs), sys.stdout)


def _warm_child(tasks):
    """Several single-process programs one after the other in ONE process (no pristine fork in between)."""
    try:
        dn = os.open(os.devnull, os.O_WRONLY)
        os.dup2(dn, 2)
        os.close(dn)
    except OSError:
        pass
    out = []
    for task in tasks:
        try:
            if not HOOKS_OK:
                out.append({'machinery_error': 'hooks are not enabled in the imported dliswriter'})
            else:
                out.append({'events': run_program(task)})
        except BaseException as e:  # noqa
            out.append({'machinery_error': ''.join(traceback.format_exception(type(e), e, e.__traceback__))[-2000:]})
    return out


def run_warm(programs, group=20, jobs=16, tmp=None):
    """Run single-process programs in groups that share one process each ("warm" processes: whatever the library keeps
    between calls - caches, class-level state, the global configuration - is inherited from the programs run before).
    Returns traces in the order of `programs`."""
    if not programs:
        return []
    tasks = [{'id': p['id'], 'steps': p['steps'], 'arrays': p.get('arrays', {}), 'tz': None, 'np_seed': p.get('np_seed'), '_tmp': tmp,
              '_proc': 1, '_oid0': 1, '_track': False, '_fresh': False} for p in programs]
    groups = [tasks[i:i + group] for i in range(0, len(tasks), group)]
    ctx = mp.get_context('fork')
    with ctx.Pool(processes=min(jobs, len(groups)), maxtasksperchild=1) as pool:
        res = pool.map(_warm_child, groups, chunksize=1)
    flat = [r for g in res for r in g]
    traces = []
    for p, r in zip(programs, flat):
        t = {'id': p['id'], 'flags': {'cmpproj': False}, 'events': r.get('events', [])}
        if 'machinery_error' in r:
            t['machinery_error'] = r['machinery_error']
        traces.append(t)
    return traces
