"""Drives the real dliswriter code (current /repo working tree) and records what happened.

A *program* is a JSON-able list of steps; running it yields a *trace*: the list of events with abstracted
arguments, outcomes and observations (file bytes, taps, flush states, caller buffers).  The driver never
judges: traces are handed to TLC (spec/TraceDlis.tla).

Every program runs in a pristine fork of a parent that has only imported dliswriter.
"""
import os
import sys

os.environ.setdefault('WELL_ID_DLISWRITER_VERIF', '1')
os.environ.setdefault('PYTHONDONTWRITEBYTECODE', '1')
os.environ.setdefault('PYTHONHASHSEED', '0')
sys.dont_write_bytecode = True

import io
import json
import logging
import multiprocessing as mp
import tempfile
import time
import traceback
import warnings

HERE = os.path.dirname(os.path.abspath(__file__))
if HERE not in sys.path:
    sys.path.insert(0, HERE)
from lib import REPO, WORK, blist, slimbs  # noqa: E402

_repo_src = os.path.join(REPO, 'src')
if _repo_src not in sys.path:
    sys.path.insert(0, _repo_src)

import numpy as np  # noqa: E402

logging.disable(logging.CRITICAL)
warnings.simplefilter('ignore')

import dliswriter  # noqa: E402
import dliswriter.file.writer as _W  # noqa: E402
from dliswriter.utils.internal import verif_hooks as _hooks  # noqa: E402

_W.progressbar = lambda it, **kw: it

HOOKS_OK = bool(getattr(_hooks, 'ENABLED', False))


def repo_origin():
    return os.path.dirname(os.path.dirname(os.path.abspath(dliswriter.__file__)))


class Tap:
    """Sink for lr-tap and flush-tap."""

    def __init__(self):
        self.lr = []
        self.flushes = []
        self.read_disk = False

    def __call__(self, kind, p):
        if kind == 'lr':
            t = p['lr_type']
            self.lr.append({'eflr': bool(p['is_eflr']), 'type': t[0] if len(t) else -1,
                            'body': blist(p['body']), 'cap': int(p['cap'])})
        elif kind == 'flush':
            rec = {'total': int(p['total_size'])}
            if self.read_disk:
                try:
                    with open(p['filename'], 'rb') as f:
                        rec['disk'] = blist(f.read())
                except OSError:
                    rec['disk'] = []
            self.flushes.append(rec)


def exc_text(e):
    return f"{type(e).__name__}: {str(e)[:200]}"


class FakeLR:
    """A logical record with given body bytes (drives DLISWriter below the EFLR/IFLR encoders)."""

    def __init__(self, body, type_byte, eflr):
        self.body = body
        self.type_byte = type_byte
        self.eflr = eflr

    def represent_as_bytes(self):
        from dliswriter.logical_record.core.logical_record import LogicalRecordBytes
        return LogicalRecordBytes(self.body, bytes([self.type_byte]), self.eflr)


def make_body(spec, idx):
    if 'hex' in spec:
        return bytes.fromhex(spec['hex'])
    n = spec['len']
    return bytes(((idx * 101 + i * 7) % 251) for i in range(1, n + 1))


def read_file(path):
    try:
        with open(path, 'rb') as f:
            return f.read()
    except OSError:
        return None


def op_lowwrite(step, ctx):
    from dliswriter.file.writer import DLISWriter
    from dliswriter.logical_record.misc import StorageUnitLabel
    vrl = step['vrl']
    recs = [(make_body(r, i + 1), r['type'], bool(r['eflr'])) for i, r in enumerate(step['recs'])]
    path = os.path.join(ctx['dir'], step.get('fname', 'low.dlis'))
    prior = step.get('prior')
    if prior is not None:
        with open(path, 'wb') as f:
            f.write(bytes((i * 13 + 5) % 256 for i in range(prior)))
    tap = Tap()
    tap.read_disk = bool(step.get('watch_disk'))
    _hooks.sinks.append(tap)
    oc = step.get('out_chunk')
    if step.get('out_chunk_float'):
        oc = float(oc)
    ev = {'op': 'lowwrite', 'vrl': vrl, 'out_chunk': int(step.get('out_chunk') or 0),
          'seq': step.get('seq', 1), 'setid': blist(step.get('setid', 'X').encode('latin-1')),
          'recs': [{'eflr': e, 'type': t, 'body': blist(b)} for b, t, e in recs],
          'prior': -1 if prior is None else prior, 'watch': tap.read_disk}
    try:
        w = DLISWriter(path, visible_record_length=vrl)
        w.write_storage_unit_label(StorageUnitLabel(step.get('setid', 'X'), step.get('seq', 1), vrl))
        w.write_logical_records([FakeLR(*r) for r in recs], output_chunk_size=oc)
        ev['outcome'] = 'ok'
        data = read_file(path)
        ev['file'] = {'bytes': blist(data or b''), 'total': int(w._byte_writer.total_size),
                      'tap': [{'eflr': x['eflr'], 'type': x['type'], 'body': x['body']} for x in tap.lr],
                      'flushes': tap.flushes}
    except Exception as e:  # noqa
        ev['outcome'] = 'raised'
        ev['exc'] = exc_text(e)
    finally:
        _hooks.sinks.remove(tap)
    return [ev]


OPS = {'lowwrite': op_lowwrite}


def run_program(prog):
    """Run one program (in the current process) and return its trace."""
    events = []
    with tempfile.TemporaryDirectory(prefix='drv', dir=prog.get('_tmp') or None) as d:
        ctx = {'dir': d, 'objs': {}, 'files': {}, 'lfs': {}, 'hc': []}
        for step in prog['steps']:
            fn = OPS.get(step['op'])
            if fn is None:
                raise RuntimeError(f"unknown op {step['op']}")
            events.extend(fn(step, ctx))
    return {'id': prog['id'], 'events': events}


def _child(prog):
    try:
        if not HOOKS_OK:
            return {'id': prog['id'], 'machinery_error': 'hooks are not enabled in the imported dliswriter'}
        return run_program(prog)
    except BaseException as e:  # noqa
        return {'id': prog['id'], 'machinery_error': ''.join(traceback.format_exception(type(e), e, e.__traceback__))[-2000:]}


def run_batch(programs, jobs=16, tmp=None):
    """Run every program in its own pristine fork; returns the list of traces (same order)."""
    if not programs:
        return []
    for p in programs:
        p['_tmp'] = tmp
    ctx = mp.get_context('fork')
    with ctx.Pool(processes=min(jobs, max(1, len(programs))), maxtasksperchild=1) as pool:
        out = pool.map(_child, programs, chunksize=1)
    for p in programs:
        p.pop('_tmp', None)
    return out


if __name__ == '__main__':
    progs = json.load(sys.stdin)
    json.dump(run_batch(progs), sys.stdout)
