"""Scenario generators, third group: histories and the fringe of the input space (C12, C14, C17, C20)."""
import numpy as np

from build import BOOL, DICT, DT, EN, F, I, L, NOJ, R, S, SETUP, TUP, Prog
from objgen import ORDER, add_all_classes, ident, make_kwargs, text, value_for
from objmodel import CLASSES
from scen import DTYPES, rand_array, rand_name, rng_for, simple_file
from scen2 import base_lf


def minimal(p, fid=1, lf=None, vrl=8192, fh_id='MINIMAL', chname='CH', frname='FR', rows=3, data=True, dtype='float64',
            origin=True, oname='ORIGIN'):
    p.file(fid, vrl=vrl)
    lf = p.lf(fid, lf=lf, fh_id=fh_id)
    o = p.origin(lf, name=oname) if origin else None
    c = p.channel(lf, chname, data=np.arange(rows).astype(dtype) if data else None)
    f = p.frame(lf, frname, [c])
    return lf, o, c, f


# ----------------------------------------------------------------------------------------------------------------------
# C12: fail-closed
# ----------------------------------------------------------------------------------------------------------------------
def gen_C12(tier, seed):
    rng = rng_for('C12', tier, seed)
    progs = []

    def fringe(name, kind):
        return Prog(f'C12-{name}', {'kind': 'fringe', 'fringe': True, 'why': kind})

    reps = 2 if tier == 'quick' else 12
    for r_ in range(reps):
        extra = rng.random() < 0.5
        # unequal row counts
        # (a later data set that is LONGER than the first one is silently truncated: known finding K02, why = 'rows'; a SHORTER one
        #  must be refused - a single row used to be broadcast over all rows: F40, why = 'rowsshort')
        for na, nb in [(5, 3), (3, 5), (5, 1), (1, 5), (4, 2), (9, 8), (2, 1)]:
            for route in ('inline', 'dict', 'struct', 'h5'):
                if route == 'struct':
                    continue       # a structured array cannot have fields of different lengths
                p = fringe(f'rows-{na}-{nb}-{route}-{r_}', 'rows' if nb > na else 'rowsshort')
                lf, _ = base_lf(p)
                a, b = rand_array(rng, 'float64', na), rand_array(rng, rng.choice(DTYPES), nb, rng.choice([None, 2]))
                if route == 'inline':
                    ca, cb = p.channel(lf, 'A', data=a), p.channel(lf, 'B', data=b)
                    arrs = {}
                else:
                    ca, cb = p.channel(lf, 'A'), p.channel(lf, 'B')
                    arrs = {ca: p.array(a), cb: p.array(b)}
                p.frame(lf, 'FR', [ca, cb])
                if extra:
                    add_all_classes(p, lf, rng, refs={}, classes=['zone', 'parameter', 'comment'])
                p.write(1, route='none' if route == 'inline' else route, data_arrays=arrs, valid=False, mustraise='rows',
                        in_chunk=rng.choice([None, 2]) if (na, nb) != (9, 8) else 8)
                progs.append(p.build())
        # unsupported dtypes, more than two dimensions
        for dt in ['int64', 'uint64', 'float16', 'bool', 'complex64']:
            p = fringe(f'dtype-{dt}-{r_}', 'dtype')
            lf, _ = base_lf(p)
            ok = p.channel(lf, 'OK', data=np.arange(3, dtype='float64'))
            bad = p.channel(lf, 'BAD', data=np.arange(3).astype(dt))
            p.frame(lf, 'FR', [ok, bad])
            p.write(1, valid=False, mustraise='dtype')
            progs.append(p.build())
        p = fringe(f'ndim-{r_}', 'ndim')
        lf, _ = base_lf(p)
        ok = p.channel(lf, 'OK', data=np.arange(3, dtype='float64'))
        bad = p.channel(lf, 'BAD', data=np.arange(24, dtype='float32').reshape(3, 2, 4))
        p.frame(lf, 'FR', [ok, bad])
        p.write(1, valid=False, mustraise='ndim')
        progs.append(p.build())
        # missing dataset
        for route in ('dict', 'struct', 'h5'):
            p = fringe(f'missing-{route}-{r_}', 'missing')
            lf, _ = base_lf(p)
            ca, cb = p.channel(lf, 'A'), p.channel(lf, 'B', dataset_name='not_there')
            p.frame(lf, 'FR', [ca, cb])
            p.write(1, route=route, data_arrays={ca: p.array(rand_array(rng, 'float64', 4))}, valid=False, mustraise='missing')
            progs.append(p.build())
        # names, labels, units, set names longer than their length prefix allows
        for where in ('objname', 'setname', 'units', 'ident', 'chname', 'frname'):
            for n in (256, 300):
                p = fringe(f'toolong-{where}-{n}-{r_}', 'toolong')
                lf, _ = base_lf(p)
                long = 'N' * n
                c = p.channel(lf, long if where == 'chname' else 'CH', data=np.arange(3, dtype='float64'),
                              units=S(long) if where == 'units' else None)
                p.frame(lf, long if where == 'frname' else 'FR', [c])
                if where == 'objname':
                    p.add(lf, 'zone', long)
                if where == 'setname':
                    p.add(lf, 'zone', 'Z', set_name=long)
                if where == 'ident':
                    p.add(lf, 'equipment', 'EQ', serial_number=S(long))
                p.write(1, valid=False, mustraise='toolong')
                progs.append(p.build())
        # non-ASCII text
        for where in ('text', 'ident', 'objname', 'units', 'setid', 'hdr', 'nofmt'):
            p = fringe(f'nonascii-{where}-{r_}', 'nonascii')
            bad = rng.choice(['café', 'dépth', 'Ω-METER', 'naïve'])
            kw = {}
            if where == 'setid':
                kw['setid'] = bad
            p.file(1, **kw)
            lf = p.lf(1, fh_id=bad if where == 'hdr' else 'HDR')
            p.origin(lf, name='O', company=S(bad) if where == 'text' else None)
            c = p.channel(lf, 'CH', data=np.arange(3, dtype='float64'), units=S(bad) if where == 'units' else None)
            p.frame(lf, 'FR', [c])
            if where == 'ident':
                p.add(lf, 'equipment', 'EQ', serial_number=S(bad))
            if where == 'objname':
                p.add(lf, 'zone', bad)
            if where == 'nofmt':
                nf = p.add(lf, 'no_format', 'NF')
                p.nofmt(lf, nf, 'caf\xe9 na\xefve'.encode('latin-1'), kind='str')
            p.write(1, valid=False, mustraise='nonascii')
            progs.append(p.build())
        # integers outside their code's range
        for attr, v in [('descent_number', 70000), ('run_number', -1), ('producer_code', 65536), ('file_number', -5),
                        ('file_number', 2 ** 31), ('name_space_version', 2 ** 30)]:
            p = fringe(f'intrange-{attr}-{v}-{r_}', 'intrange')
            p.file(1)
            lf = p.lf(1, fh_id='HDR')
            p.origin(lf, name='O', **{attr: I(v)})
            c = p.channel(lf, 'CH', data=np.arange(3, dtype='float64'))
            p.frame(lf, 'FR', [c])
            p.write(1, valid=False, mustraise='intrange')
            progs.append(p.build())
        for v in [2 ** 31, -2 ** 31 - 1, 2 ** 40]:
            p = fringe(f'intrange-slong-{v}-{r_}', 'intrange')
            lf, _ = base_lf(p)
            c = p.channel(lf, 'CH', data=np.arange(3, dtype='float64'))
            p.frame(lf, 'FR', [c])
            p.add(lf, 'axis', 'AX', coordinates=L(I(v), I(1)))
            p.write(1, valid=False, mustraise='intrange')
            progs.append(p.build())
        # a list for a single-valued attribute
        several = [('origin', {'file_type': L(S('a'), S('b'))}), ('zone', {'description': L(S('x'), S('y'))}),
                   ('equipment', {'serial_number': L(S('S1'), S('S2'))})]
        # ... also as a tuple, and for the attributes whose values pass no type-checking converter
        for cls, attr in [('origin', 'file_type'), ('origin', 'file_set_name'), ('origin', 'name_space_name'), ('origin', 'well_name'),
                          ('frame', 'direction'), ('no_format', 'consumer_name'), ('calibration', 'method'),
                          ('message', 'message_type'), ('zone', 'description'), ('equipment', 'serial_number'),
                          ('calibration_coefficient', 'label'), ('axis', 'axis_id')]:
            several.append((cls, {attr: TUP(S('A'), S('B'))}))
            if r_ == 0:
                several.append((cls, {attr: TUP(S('A'), S('B'), S('C'))}))
                several.append((cls, {attr: L(S('A'), S('B'))}))
        for j, (cls, kw_) in enumerate(several):
            p = fringe(f'listscalar-{cls}-{j}-{r_}', 'listscalar')
            p.file(1)
            lf = p.lf(1, fh_id='HDR')
            if cls == 'origin':
                p.origin(lf, name='O', company=S('ACME'), **kw_)
            else:
                p.origin(lf, name='O', company=S('ACME'))
                if cls != 'frame':
                    p.add(lf, cls, 'OBJ', **kw_)
            c = p.channel(lf, 'CH', data=np.arange(3, dtype='float64'))
            p.frame(lf, 'FR', [c], **(kw_ if cls == 'frame' else {}))
            p.write(1, valid=False, mustraise='listscalar')
            progs.append(p.build())
        # ragged nested values (one value array per zone, of different shapes): no DIMENSION describes them
        for j, (cls, vals) in enumerate([('parameter', L(L(F(1.0), F(2.0)), L(F(3.0)))), ('computation', L(L(F(1.0), F(2.0)), L(F(3.0)))),
                                         ('parameter', L(L(I(1), I(2)), I(3))), ('computation', L(L(L(F(1.0)), L(F(2.0))), L(L(F(3.0)))))]):
            p = fringe(f'ragged-{cls}-{j}-{r_}', 'ragged')
            lf, _ = base_lf(p)
            c = p.channel(lf, 'CH', data=np.arange(3, dtype='float64'))
            p.frame(lf, 'FR', [c])
            z1, z2 = p.add(lf, 'zone', 'Z1'), p.add(lf, 'zone', 'Z2')
            p.add(lf, cls, 'RAGGED', zones=L(R(z1), R(z2)), values=vals)
            p.write(1, valid=False, mustraise='ragged')
            progs.append(p.build())
        # a calibration measurement whose controlled attributes have different sample shapes (no DIMENSION given): one DIMENSION
        # cannot describe them all
        for j, (a1, a2) in enumerate([(L(L(F(1.0), F(2.0)), L(F(3.0), F(4.0))), L(L(F(10.0), F(20.0), F(30.0)), L(F(40.0), F(50.0), F(60.0)))),
                                      (L(F(1.0), F(2.0)), L(L(F(1.0), F(2.0)), L(F(3.0), F(4.0))))]):
            p = fringe(f'cmshapes-{j}-{r_}', 'cmshapes')
            lf, _ = base_lf(p)
            c = p.channel(lf, 'CH', data=np.arange(3, dtype='float64'))
            p.frame(lf, 'FR', [c])
            p.add(lf, 'calibration_measurement', 'CM', maximum_deviation=a1, standard=a2)
            p.write(1, valid=False, mustraise='cmshapes')
            progs.append(p.build())
        # no origin / channels / frames
        p = fringe(f'noorigin-{r_}', 'noorigin')
        minimal(p, origin=False)
        p.write(1, valid=False, mustraise='noorigin')
        progs.append(p.build())
        p = fringe(f'nochannels-{r_}', 'nochannels')
        p.file(1)
        lf = p.lf(1, fh_id='X')
        p.origin(lf, name='O')
        p.add(lf, 'zone', 'Z')
        p.write(1, valid=False, mustraise='nochannels')
        progs.append(p.build())
        p = fringe(f'noframes-{r_}', 'noframes')
        p.file(1)
        lf = p.lf(1, fh_id='X')
        p.origin(lf, name='O')
        p.channel(lf, 'CH', data=np.arange(3, dtype='float64'))
        p.write(1, valid=False, mustraise='noframes')
        progs.append(p.build())
        # degenerate but representable
        for cls, attr in [('comment', 'text'), ('axis', 'coordinates'), ('tool', 'parts'), ('long_name', 'conditions')]:
            p = fringe(f'empty-{cls}-{r_}', 'emptylist')
            lf, _ = base_lf(p)
            c = p.channel(lf, 'CH', data=np.arange(3, dtype='float64'))
            p.frame(lf, 'FR', [c])
            p.add(lf, cls, 'OBJ', **{attr: L()})
            p.add(lf, cls, 'OBJ2')
            p.write(1, valid=False, either=True)
            progs.append(p.build())
        # two channels of the same name (copy numbers 0 and 1) in one frame: refused today; if written, then faithfully
        for same_set in (True, False):
            p = fringe(f'dupchannel-{same_set}-{r_}', 'dupchannel')
            lf, _ = base_lf(p)
            d = p.channel(lf, 'DEPTH', data=np.arange(4, dtype='float64'))
            a1 = p.channel(lf, 'A', data=rand_array(rng, 'float64', 4))
            a2 = p.channel(lf, 'A', data=rand_array(rng, 'float64', 4), set_name=None if same_set else 'OTHER')
            p.frame(lf, 'MAIN', [d, a1, a2])
            p.write(1, valid=False, either=True)
            progs.append(p.build())
        # bad windows
        for frm, to in [(3, 3), (2, 1), (5, None), (4, None), (0, 9), (3, 9), (3, 5), (0, 5), (2, 6)]:
            p = fringe(f'window-{frm}-{to}-{r_}', 'window')
            minimal(p, rows=4)
            opts = {'from': frm}
            if to is not None:
                opts['to'] = to
            p.write(1, valid=False, mustraise='window', **opts)      # no rows [from, to) exist in a 4-row source
            progs.append(p.build())
    from scen2 import foreign_reference_programs, header_route_programs
    from scen import gen_bad_label_numbers
    progs += gen_bad_label_numbers('C12')
    progs += foreign_reference_programs('C12') + [q for q in header_route_programs('C12') if q['meta'].get('fringe')]
    return progs


# ----------------------------------------------------------------------------------------------------------------------
# C14: output depends only on the current specification
# ----------------------------------------------------------------------------------------------------------------------
def spec_B(p, rng, fid, lf, variant):
    """A specification whose names collide with those of spec_A but whose origin / copy / type / values differ."""
    p.file(fid, vrl=256)
    lf = p.lf(fid, lf=lf, fh_id='THE-FILE')
    p.origin(lf, name='ORIGIN', origin_reference=variant.get('oref'), company=S(variant.get('company', 'ACME')),
             file_type=variant.get('file_type'))
    chans = []
    for nm, dt in variant.get('chans', [('DEPTH', 'float64'), ('DATA', 'int16')]):
        chans.append(p.channel(lf, nm, data=(np.arange(4) + variant.get('off', 0)).astype(dt)))
    if variant.get('dup'):
        chans.append(p.channel(lf, 'DATA', data=np.arange(4).astype('uint8'), set_name='SECOND'))
    p.frame(lf, 'FRAME', chans[:2])
    if variant.get('dup'):
        p.frame(lf, 'FRAME2', chans[2:])
    z = p.add(lf, 'zone', 'DEPTH', description=S(variant.get('zdesc', 'zone')))
    p.add(lf, 'parameter', 'DEPTH', zones=L(R(z)), values=L(variant.get('pval', F(1.0))))
    return lf


def rewidth_programs(pid, rng):
    progs = []
    # data of another width at the next write; a write refused for its data followed by a correct one; a write refused for missing
    # objects before the first objects of other classes exist: the next file is the one of a fresh process
    for i in range(6):
        p = Prog(f'{pid}-rewidth-{i}', {'kind': 'rewidth'})
        ixd = np.arange(4, dtype='float64')
        first = [np.zeros((4, 2)), np.zeros((4, 2)), np.zeros((4,)), np.zeros((4, 3), dtype='float32'), None, None][i]
        final = [rand_array(rng, 'float64', 4, 3), rand_array(rng, 'float64', 4), rand_array(rng, 'float64', 4, 2), rand_array(rng, 'float32', 4, 1),
                 rand_array(rng, 'float64', 4, 2), rand_array(rng, 'int16', 4)][i]
        for fid in (1, 101):
            if fid == 101:
                p.next_proc(fresh=True)
            p.file(fid, vrl=256)
            lf = p.lf(fid, lf=fid, fh_id='REWIDTH')
            p.origin(lf, name='O')
            if i == 5 and fid == 1:
                p.write(fid, fname='refused.dlis', valid=False, mustraise='nochannels')      # no channels yet: refused
            if i >= 4:
                p.add(lf, 'axis', 'AX')
                p.add(lf, 'zone', 'ZN')
            ix, v = p.channel(lf, 'IX'), p.channel(lf, 'V')
            p.frame(lf, 'FR', [ix, v], **({'index_type': EN('FrameIndexType', 'BOREHOLE_DEPTH')} if i == 4 else {}))
            if fid == 1 and first is not None:
                p.write(fid, route='dict', data_arrays={ix: p.array(ixd), v: p.array(first)}, fname='first.dlis')
            if fid == 1 and i == 4:     # refused: the index channel is 2-D
                p.write(fid, route='dict', data_arrays={ix: p.array(np.zeros((4, 2))), v: p.array(final)}, fname='refused.dlis', valid=False, mustraise='index2d')
            p.write(fid, route='dict', data_arrays={ix: p.array(ixd), v: p.array(final)}, fname='second.dlis' if fid == 1 else 'fresh.dlis')
        progs.append(p.build())
    return progs


def gen_C14(tier, seed):
    rng = rng_for('C14', tier, seed)
    progs = []
    variants = [
        {}, {'oref': 5}, {'company': 'OTHER'}, {'off': 3}, {'dup': True}, {'pval': I(1)}, {'pval': BOOL(True)}, {'pval': F(1.0)},
        {'pval': F(-0.0)}, {'pval': F(0.0)}, {'pval': I(0)}, {'chans': [('DEPTH', 'float32'), ('DATA', 'uint16')]},
        {'file_type': I(1)}, {'file_type': F(1.0)}, {'file_type': S('1')}, {'zdesc': 'another zone'},
    ]
    n = 30 if tier == 'quick' else 400
    for i in range(n):
        p = Prog(f'C14-hist-{i}', {'kind': 'history'})
        k = rng.randint(1, 3)
        chosen = [rng.choice(variants) for _ in range(k)]
        final = rng.choice(variants)
        fid = 0
        for v in chosen:
            fid += 1
            spec_B(p, rng, fid, fid, v)
            if rng.random() < 0.8:
                p.write(fid, fname=f'h{fid}.dlis', in_chunk=rng.choice([None, 1]))
            if rng.random() < 0.3:
                p.hc('enter')
                p.hc(rng.choice(['exit', 'exc']))
        fid += 1
        spec_B(p, rng, fid, fid, final)
        p.write(fid, fname='final.dlis')
        p.write(fid, fname='final-again.dlis')         # writing the same DLISFile again
        p.next_proc(fresh=True)
        spec_B(p, rng, 101, 101, final)
        p.write(101, fname='fresh.dlis')
        progs.append(p.build())
    # mutate after a write: new value / units / origin reference / data, then compare with a fresh build of the result
    for i in range(24 if tier == 'quick' else 240):
        p = Prog(f'C14-mutate-{i}', {'kind': 'mutate'})
        what = ['value', 'units', 'origin_ref', 'data', 'window', 'rename', 'rename_src', 'reorigin_src'][i % 8]
        p.file(1, vrl=256)
        lf = p.lf(1, lf=1, fh_id='THE-FILE')
        o = p.origin(lf, name='ORIGIN')
        c1 = p.channel(lf, 'INDEX')
        c2 = p.channel(lf, 'VALUE', units=S('m'))
        fr = p.frame(lf, 'FRAME', [c1, c2])
        z = p.add(lf, 'zone', 'ZONE', description=S('before'))
        pa = p.add(lf, 'parameter', 'PARAM', zones=L(R(z)), values=L(F(2.5)))
        tl = p.add(lf, 'tool', 'TOOL-A', description=S('the source'))
        p.set(c2, 'source', R(tl))
        p.add(lf, 'group', 'GROUP', object_list=L(R(z), R(tl)))
        p.add(lf, 'computation', 'COMP', source=R(tl))
        a1, b1 = p.array(np.arange(4, dtype='float64')), p.array(rand_array(rng, 'int16', 4))
        a2, b2 = p.array(np.arange(6, dtype='float32') * 2), p.array(rand_array(rng, 'float32', 6))
        p.write(1, route='dict', data_arrays={c1: a1, c2: b1}, fname='first.dlis')
        kw2 = {'data_arrays': {c1: a1, c2: b1}}
        if what == 'value':
            p.set(z, 'description', S('after'))
        elif what == 'units':
            p.set(c2, 'units', S('ft'))
        elif what == 'origin_ref':
            p.origin(lf, name='SECOND', fsn=2, origin_reference=9)
            p.set_origin_ref(z, 9)
        elif what == 'rename':
            p.rename(z, 'ZONE-RENAMED')
        elif what == 'rename_src':
            p.rename(tl, 'TOOL-B')
        elif what == 'reorigin_src':
            p.origin(lf, name='SECOND', fsn=2, origin_reference=9)
            p.set_origin_ref(tl, 9)
        elif what == 'data':
            kw2 = {'data_arrays': {c1: a2, c2: b2}}
        elif what == 'window':
            kw2['from'] = 1
            kw2['to'] = 3
        p.write(1, route='dict', fname='second.dlis', **kw2)
        # the fresh process builds the final specification directly
        p.next_proc(fresh=True)
        p.file(101, vrl=256)
        lf = p.lf(101, lf=101, fh_id='THE-FILE')
        o = p.origin(lf, name='ORIGIN')
        c1 = p.channel(lf, 'INDEX')
        c2 = p.channel(lf, 'VALUE', units=S('m'))
        if what == 'units':
            p.set(c2, 'units', S('ft'))
        fr = p.frame(lf, 'FRAME', [c1, c2])
        z = p.add(lf, 'zone', 'ZONE', description=S('before'))
        if what == 'value':
            p.set(z, 'description', S('after'))
        pa = p.add(lf, 'parameter', 'PARAM', zones=L(R(z)), values=L(F(2.5)))
        tl = p.add(lf, 'tool', 'TOOL-A', description=S('the source'))
        p.set(c2, 'source', R(tl))
        p.add(lf, 'group', 'GROUP', object_list=L(R(z), R(tl)))
        p.add(lf, 'computation', 'COMP', source=R(tl))
        if what == 'rename':
            p.rename(z, 'ZONE-RENAMED')
        if what == 'rename_src':
            p.rename(tl, 'TOOL-B')
        if what == 'reorigin_src':
            p.origin(lf, name='SECOND', fsn=2, origin_reference=9)
            p.set_origin_ref(tl, 9)
        if what == 'origin_ref':
            p.origin(lf, name='SECOND', fsn=2, origin_reference=9)
            p.set_origin_ref(z, 9)
        kw2f = {'data_arrays': {c1: kw2['data_arrays'][list(kw2['data_arrays'])[0]], c2: kw2['data_arrays'][list(kw2['data_arrays'])[1]]}}
        for k_ in ('from', 'to'):
            if k_ in kw2:
                kw2f[k_] = kw2[k_]
        p.write(101, route='dict', fname='fresh.dlis', **kw2f)
        p.meta['what'] = what
        progs.append(p.build())
    progs += rewidth_programs('C14', rng)
    # a decorated function that raised (or returned) earlier in the process: an ordinary file with names only the normal mode
    # accepts is still written, as in a fresh process
    for i in range(6):
        p = Prog(f'C14-afterdecorated-{i}', {'kind': 'afterdecorated'})
        for fid in (1, 101):
            if fid == 101:
                p.next_proc(fresh=True)
            if fid == 1:
                # i >= 3: the decorated function calls itself (re-entered while running), 2 or 3 levels deep
                p.steps.append({'op': 'hc_decorated', 'steps': [], 'raise_inside': i not in (2, 4), 'depth': 1 if i < 3 else i - 1 if i < 5 else 3})
                if i == 1:
                    p.steps.append({'op': 'hc_decorated', 'steps': [], 'raise_inside': False})
            p.file(fid, vrl=256, setid='lower case set identifier')
            lf = p.lf(fid, lf=fid, fh_id='header with blanks')
            p.origin(lf, name='origin.name')
            c = p.channel(lf, 'channel name', data=np.arange(3, dtype='int16'), units=S('furlongs'))
            p.frame(lf, 'frame name', [c])
            p.write(fid, fname='after.dlis' if fid == 1 else 'fresh.dlis')
        progs.append(p.build())
    # the same source path (HDF5 file, replaced in between) or the same dict / array objects (contents replaced) used for two
    # writes with different data, by one DLISFile or by two: the second file holds the second data, as in a fresh process
    for i in range(10):
        route = ['h5', 'h5', 'dict', 'struct', 'h5', 'h5', 'dict', 'struct', 'dict', 'dict'][i]
        p = Prog(f'C14-sourcetwice-{i}', {'kind': 'sourcetwice', 'route': route})
        first = np.array([1000.0, 1000.5, 1001.0, 1001.5])
        second = np.array([2000.0, 2000.5, 2001.0, 2001.5, 2002.0])[:4 if i % 2 else 5]
        for fid in (1, 101):
            if fid == 101:
                p.next_proc(fresh=True)
            two_files = i >= 4 and fid == 1
            for sub in ((0, 1) if two_files else (0,)):
                f = fid + sub
                p.file(f, vrl=512)
                lf = p.lf(f, lf=f, fh_id='SOURCE-TWICE')
                p.origin(lf, name='O')
                d = p.channel(lf, 'DEPTH')
                g = p.channel(lf, 'GR')
                p.frame(lf, 'FR', [d, g], index_type=EN('FrameIndexType', 'BOREHOLE_DEPTH'))
                if fid == 1 and sub == 0:
                    p.write(f, route=route, data_arrays={d: p.array(first), g: p.array(first * 2)}, fname='w1.dlis')
                if fid == 101 or sub == (1 if two_files else 0):
                    # (route dict: the caller hands over the SAME dict object again, with other arrays under its keys)
                    p.write(f, route=route, data_arrays={d: p.array(second), g: p.array(second * 3)}, fname=('w2.dlis' if fid == 1 else 'fresh.dlis'),
                            same_dict=(route == 'dict'))
        progs.append(p.build())
    # values the library fills in on its own at a write (LONG-NAME of a channel = its name, DIMENSION of a parameter / computation
    # from the shape of its values, ELEMENT-LIMIT of a channel = its DIMENSION) and the user's later changes of what they came from
    for i in range(6):
        p = Prog(f'C14-defaults-{i}', {'kind': 'defaults', 'what': ['rename', 'parshape', 'compshape', 'chdim', 'rename-before', 'parflat'][i]})
        for fid in (1, 101):
            if fid == 101:
                p.next_proc(fresh=True)
            first = fid == 1
            p.file(fid, vrl=512)
            lf = p.lf(fid, lf=fid, fh_id='DEFAULTS')
            p.origin(lf, name='O')
            c = p.channel(lf, 'A' if first and i in (0, 4) else 'B', data=np.arange(3, dtype='float64'), dataset_name='dset')
            wide = p.channel(lf, 'W', data=np.arange(12, dtype='float64').reshape(3, 4), **({'dimension': L(I(4))} if i == 3 else {}))
            p.frame(lf, 'FR', [c, wide])
            z1, z2 = p.add(lf, 'zone', 'Z1'), p.add(lf, 'zone', 'Z2')
            v2 = L(L(I(1), I(2)), L(I(3), I(4)))
            v3 = L(L(I(1), I(2), I(3)), L(I(4), I(5), I(6)))
            flat = L(I(7), I(8))
            par = p.add(lf, 'parameter', 'P', zones=L(R(z1), R(z2)), values=(v2 if first else v3) if i == 1 else (v2 if first else flat) if i == 5 else v2)
            comp = p.add(lf, 'computation', 'C', zones=L(R(z1), R(z2)), values=(v2 if first else v3) if i == 2 else v2)
            if first:
                if i != 4:
                    p.write(fid, fname='first.dlis')
                if i in (0, 4):
                    p.rename(c, 'B')
                elif i == 1:
                    p.set(par, 'values', v3)
                elif i == 2:
                    p.set(comp, 'values', v3)
                elif i == 5:
                    p.set(par, 'values', flat)
            p.write(fid, fname='second.dlis' if first else 'fresh.dlis')
        progs.append(p.build())
    # the file header (id, sequence number) changed between two writes: the next file is the one of a fresh process
    for i in range(4):
        p = Prog(f'C14-reheader-{i}', {'kind': 'reheader'})
        for fid in (1, 101):
            if fid == 101:
                p.next_proc(fresh=True)
            p.file(fid, vrl=512)
            final_id, final_seq = ('SECOND-ID' if i % 2 == 0 else 'FIRST-ID'), (7 if i >= 1 else 1)
            first = fid == 1
            lf = p.lf(fid, lf=fid, fh_id='FIRST-ID' if first else final_id, fh_seq=1 if first else final_seq)
            o = p.origin(lf, name='O')
            if i == 3:          # a FILE-ID the user assigned (add_origin has no keyword for it)
                p.set(o, 'file_id', S('FIRST-ID' if first else final_id))
            c = p.channel(lf, 'CH', data=np.arange(3, dtype='float64'))
            p.frame(lf, 'FR', [c])
            if first:
                p.write(fid, fname='first.dlis')
                if final_id != 'FIRST-ID':
                    p.set_header(lf, 'header_id', final_id)
                if final_seq != 1:
                    p.set_header(lf, 'sequence_number', final_seq)
            p.write(fid, fname='second.dlis' if first else 'fresh.dlis')
        progs.append(p.build())
    # two logical files; after a first write the second one receives objects of classes only the first had, in another order:
    # the sets come out in the order of the calls, as in a process that never wrote before
    orders = [('zone', 'parameter'), ('parameter', 'zone'), ('tool', 'equipment', 'zone'), ('axis', 'comment', 'message', 'zone')]
    for i, late in enumerate(orders):
        p = Prog(f'C14-lateobjects-{i}', {'kind': 'lateobjects'})
        for fid in (1, 101):
            if fid == 101:
                p.next_proc(fresh=True)
            p.file(fid, vrl=512)
            lfs = []
            for k in range(2):
                lf = p.lf(fid, lf=fid * 10 + k, fh_id=f'LF-{k}', fh_seq=k + 1)
                sn = f'SET-{k}'
                p.origin(lf, name=f'O{k}', fsn=k + 1, set_name=sn)
                c = p.channel(lf, f'CH{k}', data=np.arange(3, dtype='float64'), set_name=sn)
                p.frame(lf, f'FR{k}', [c], set_name=sn)
                lfs.append((lf, sn))
            # the first logical file has the classes in one order ...
            for cls in sorted(set(late)):
                p.add(lfs[0][0], cls, f'FIRST-{cls}'.upper(), set_name=lfs[0][1])
            if fid == 1:
                p.write(fid, fname='first.dlis')
                if i % 2:
                    p.write(fid, fname='first-again.dlis')
            # ... the second one gets them later, in another order
            for cls in late:
                p.add(lfs[1][0], cls, f'LATE-{cls}'.upper(), set_name=lfs[1][1])
            p.write(fid, fname='second.dlis' if fid == 1 else 'fresh.dlis')
        progs.append(p.build())
    # frame index metadata derived at an earlier write (a NaN in the index; bounds the user then pins to the very values
    # derived before): the next file is the one a fresh process writes
    for i in range(8 if tier == 'quick' else 48):
        p = Prog(f'C14-indexhist-{i}', {'kind': 'indexhist'})
        full = np.array([1000, 1001, 1002, 1003, 1004, 1005], dtype='float64')
        first = full if i % 2 else np.array([1.0, float('nan'), 3.0, 4.0, 5.0, 6.0])
        second = np.array([20, 21, 22, 23, 24, 25], dtype='float64') if i % 2 == 0 else full
        other = rand_array(rng, 'int16', 6)
        kw2 = {'from': 2, 'to': 5} if i % 2 else {}
        for fid in (1, 101):
            if fid == 101:
                p.next_proc(fresh=True)
            p.file(fid, vrl=256)
            lf = p.lf(fid, lf=fid, fh_id='INDEXED')
            p.origin(lf, name='ORIGIN')
            idx = p.channel(lf, 'INDEX')
            oth = p.channel(lf, 'OTHER')
            fr = p.frame(lf, 'FR', [idx, oth], index_type=EN('FrameIndexType', 'BOREHOLE_DEPTH'))
            if fid == 1:
                p.write(fid, route='dict', data_arrays={idx: p.array(first), oth: p.array(other)}, fname='w1.dlis')
                if i % 4 >= 2:
                    p.write(fid, route='dict', data_arrays={idx: p.array(first), oth: p.array(other)}, fname='w1b.dlis', **{'from': 1, 'to': 4})
            if i % 2:
                p.set(fr, 'index_min', F(1000.0))
                p.set(fr, 'index_max', F(1005.0))
                if i % 4 == 1:
                    p.set(fr, 'spacing', F(1.0))
            p.write(fid, route='dict', data_arrays={idx: p.array(second), oth: p.array(other)}, fname=('w2.dlis' if fid == 1 else 'fresh.dlis'), **kw2)
        progs.append(p.build())
    return progs


# ----------------------------------------------------------------------------------------------------------------------
# C17: high-compatibility mode
# ----------------------------------------------------------------------------------------------------------------------
def gen_C17(tier, seed):
    rng = rng_for('C17', tier, seed)
    progs = []
    breaches = ['none', 'objname', 'chname', 'setid', 'hdrid', 'signed', 'noframe', 'twoframes', 'nonuniform', 'nonuniform-spacing',
                'nonuniform-minmax', 'nonuniform-dec', 'nonuniform-dec-u16', 'nonuniform-jitter', 'units', 'indextype', 'eqtype', 'eqloc',
                'objname-nl', 'chname-nl', 'setid-nl', 'hdrid-nl', 'objname-tab']
    patterns = ['inside', 'outside', 'nested', 'after-exc', 'decorator', 'after-exit', 'decorator-rec']
    k = 0
    for b in breaches:
        for pat in patterns if tier == 'thorough' or b in ('none', 'chname') else ['inside', 'outside', rng.choice(patterns[2:])]:
            k += 1
            p = Prog(f'C17-{b}-{pat}', {'kind': 'hc', 'breach': b, 'pattern': pat})
            inside = pat in ('inside', 'nested', 'decorator', 'decorator-rec')
            if pat == 'inside':
                p.hc('enter')
            elif pat == 'nested':
                p.hc('enter')
                p.hc('enter')
                p.hc('exit')
            elif pat == 'after-exc':
                p.hc('enter')
                p.hc('exc')
            elif pat == 'after-exit':
                p.hc('enter')
                p.hc('enter')
                p.hc('exc')
                p.hc('exit')
            body = Prog('body')
            body._lf_fid, body._lf_frames, body._frames, body._ch_arr, body._ch_cast, body._ch_ds = (p._lf_fid, p._lf_frames, p._frames, p._ch_arr, p._ch_cast, p._ch_ds)
            body.arrays = p.arrays
            body._n = 1000
            q = body
            q.file(1, setid='lower case set' if b == 'setid' else 'STORAGE-SET-1\n' if b == 'setid-nl' else 'STORAGE-SET-1')
            lf = q.lf(1, fh_id='header with spaces' if b == 'hdrid' else 'HEADER-1\n' if b == 'hdrid-nl' else 'HEADER-1')
            q.origin(lf, name='ORIGIN-1')
            idx = (np.array([0, 1, 5, 6]) if b.startswith('nonuniform') else np.arange(4)).astype('float64')
            if b == 'nonuniform-dec':
                idx = np.array([20, 17, 16, 12], dtype='float64')
            elif b == 'nonuniform-dec-u16':
                idx = np.array([900, 700, 650, 100], dtype='uint16')
            elif b == 'nonuniform-jitter':
                idx = np.array([40, 30, 19, 10], dtype='float64')
            c1 = q.channel(lf, 'DEPTH', data=idx, units=(S('furlongs') if b == 'units' else EN('Unit', 'METER')))
            c2 = q.channel(lf, 'chan lower' if b == 'chname' else 'VALUES\n' if b == 'chname-nl' else 'VALUES',
                           data=rand_array(rng, 'int16' if b == 'signed' else 'uint16', 4))
            chans = [c1, c2]
            if b == 'noframe':
                q.channel(lf, 'LONELY', data=rand_array(rng, 'uint8', 4))
            fkw = {}
            if b == 'nonuniform-spacing':
                fkw['spacing'] = rng.choice([F(1.0), SETUP(F(1.0), S('m')), I(1)])
            if b == 'nonuniform-minmax':
                fkw['index_min'] = F(0.0)
                fkw['index_max'] = F(6.0)
                fkw['direction'] = S('INCREASING')
            q.frame(lf, 'MAIN-FRAME', chans,
                    index_type=(S('MY-INDEX') if b == 'indextype' else EN('FrameIndexType', 'BOREHOLE_DEPTH')) if b.startswith('nonuniform') or b == 'indextype' or rng.random() < 0.5 else None, **fkw)
            if b == 'twoframes':
                q.frame(lf, 'SECOND-FRAME', [c2])
            if b == 'objname':
                q.add(lf, 'zone', 'zone.with.dots')
            if b in ('objname-nl', 'objname-tab'):
                q.add(lf, 'zone', 'ZONE-1\n' if b == 'objname-nl' else 'ZONE\t1')
            if b in ('eqtype', 'eqloc'):
                q.add(lf, 'equipment', 'EQ-1', eq_type=S('Gizmo') if b == 'eqtype' else EN('EquipmentType', 'CABLE'),
                      location=S('Moon') if b == 'eqloc' else EN('EquipmentLocation', 'RIG'))
            q.write(1, valid=(b == 'none' or not inside),
                    hc_breach=(b if (b in ('signed', 'noframe', 'twoframes', 'nonuniform', 'nonuniform-spacing', 'nonuniform-minmax',
                                           'nonuniform-dec', 'nonuniform-dec-u16', 'nonuniform-jitter') and inside) else ''))
            if pat in ('decorator', 'decorator-rec'):
                p.steps.append({'op': 'hc_decorated', 'steps': q.steps, 'raise_inside': rng.random() < 0.5,
                                'depth': 1 if pat == 'decorator' else rng.choice([2, 3])})
            else:
                p.steps.extend(q.steps)
            if pat == 'inside':
                p.hc('exit')
            elif pat == 'nested':
                p.hc('exit')
            # afterwards the mode must be off again: the breaching inputs are accepted
            r = Prog('after')
            r._lf_fid, r._lf_frames, r._frames, r._ch_arr, r._ch_cast, r._ch_ds = (p._lf_fid, p._lf_frames, p._frames, p._ch_arr, p._ch_cast, p._ch_ds)
            r.arrays = p.arrays
            r._n = 2000
            r.file(2, setid='lower case set')
            lf2 = r.lf(2, lf=2, fh_id='header with spaces')
            r.origin(lf2, name='origin')
            d1 = r.channel(lf2, 'depth', data=np.arange(3, dtype='int32'), units=S('furlongs'))
            r.frame(lf2, 'frame', [d1])
            r.write(2, valid=True, fname='after.dlis')
            p.steps.extend(r.steps)
            progs.append(p.build())
    # the mode at the time of an assignment decides, not the mode at the time the object was built
    k = 0
    for attr, enum, bad, cls in [('units', 'Unit', 'furlong', 'channel'), ('index_type', 'FrameIndexType', 'SOME-INDEX', 'frame'),
                                 ('_type', 'EquipmentType', 'Gizmo', 'equipment'), ('location', 'EquipmentLocation', 'Moon', 'equipment')]:
        for built_inside in (False, True):
            for how in (['plain', 'nested', 'exc'] if tier == 'thorough' else ['plain', 'exc' if built_inside else 'nested']):
                k += 1
                p = Prog(f'C17-late-{attr.strip("_")}-{built_inside}-{how}', {'kind': 'hc-late', 'attr': attr, 'built_inside': built_inside})
                if built_inside:
                    p.hc('enter')
                p.file(1, setid='SET-1')
                lf = p.lf(1, fh_id='HDR-1')
                p.origin(lf, name='ORIGIN-1')
                c = p.channel(lf, 'DEPTH', data=np.arange(4, dtype='float64'))
                f = p.frame(lf, 'FRAME-1', [c])
                e = p.add(lf, 'equipment', 'EQ-1')
                obj = {'channel': c, 'frame': f, 'equipment': e}[cls]
                if built_inside:
                    p.hc('exc' if how == 'exc' else 'exit')
                    # outside again: the non-standard value is accepted with a warning
                    p.steps.append({'op': 'set', 'obj': obj, 'attr': attr, 'part': 'value', 'val': S(bad), 'enum': enum, 'soft_only': True})
                    p.write(1, valid=True)
                else:
                    p.hc('enter')
                    if how == 'nested':
                        p.hc('enter')
                        p.hc('exit')
                    # inside: the non-standard value must be refused
                    p.steps.append({'op': 'set', 'obj': obj, 'attr': attr, 'part': 'value', 'val': S(bad), 'enum': enum})
                    p.write(1, valid=False, either=True)
                    p.hc('exit')
                progs.append(p.build())
    # names given by re-assignment inside the mode (object name, header id, set identifier of the label), then written inside
    for what in ('objname', 'chname', 'hdrid', 'setid', 'none'):
        for bad in ('gamma ray', 'GAMMA\n'):
            p = Prog(f'C17-latename-{what}-{len(bad)}', {'kind': 'hc-latename', 'what': what})
            p.hc('enter')
            p.file(1, setid='SET-1')
            lf = p.lf(1, fh_id='HDR-1')
            p.origin(lf, name='ORIGIN-1')
            c = p.channel(lf, 'DEPTH', data=np.arange(4, dtype='float64'))
            c2 = p.channel(lf, 'GR', data=np.arange(4, dtype='float64'))
            p.frame(lf, 'FRAME-1', [c, c2])
            z = p.add(lf, 'zone', 'ZONE-1')
            if what == 'objname':
                p.rename(z, bad)
            elif what == 'chname':
                p.rename(c2, bad)
            elif what == 'hdrid':
                p.set_header(lf, 'header_id', bad)
            elif what == 'setid':
                p.set_sul(1, 'set_identifier', bad)
            else:
                p.rename(z, 'ZONE-2')
            p.write(1, valid=(what == 'none'), either=(what != 'none'))
            p.hc('exit')
            progs.append(p.build())
    return progs


# ----------------------------------------------------------------------------------------------------------------------
# C20: a rejected call leaves no trace
# ----------------------------------------------------------------------------------------------------------------------
BAD_ARG = {      # class -> list of (kwargs that make the call raise)
    'channel': [{'units': I(5)}, {'properties': L(S('NOT-A-PROPERTY'))}, {'axis': 'WRONGREF'}, {'minimum_value': S('abc')}, 'CAST', {'long_name': I(3)}, {'dimension': L(F(1.5))},
                'CASTSTR', 'CASTCHAR', 'CASTPY'],     # dtype-likes numpy would resolve to a supported dtype, but the library refuses
    'frame': [{'description': I(5)}, {'encrypted': I(7)}, {'spacing': S('wide')}, {'channels': 'WRONGREF'}],
    'axis': [{'axis_id': I(1) if False else None, 'spacing': S('x')}],
    'zone': [{'domain': S('NOT-A-DOMAIN')}, {'description': I(2)}, {'maximum': S('not a date')}],
    'parameter': [{'zones': 'WRONGREF'}, {'long_name': I(1)}, {'dimension': L(S('x'))}],
    'equipment': [{'status': I(5)}, {'trademark_name': I(5)}, {'height': S('tall')}],
    'tool': [{'parts': 'WRONGREF'}, {'status': F(0.5)}, {'description': L(S('a'))}],
    'computation': [{'properties': L(S('BOGUS'))}, {'zones': 'WRONGREF'}, {'values': L(S('x'))}],
    'process': [{'status': S('BOGUS')}, {'input_channels': 'WRONGREF'}, {'comments': L(I(1))}],
    'splice': [{'output_channel': 'WRONGREF'}, {'zones': 'WRONGREF'}],
    'calibration_measurement': [{'phase': S('BOGUS')}, {'sample_count': F(1.5)}, {'axis': 'WRONGREF'}],
    'calibration_coefficient': [{'coefficients': L(S('x'))}],
    'calibration': [{'calibrated_channels': 'WRONGREF'}, {'parameters': 'WRONGREF'}],
    'group': [{'group_list': 'WRONGREF'}, {'description': I(1)}],
    'long_name': [{'quantity': I(5)}, {'general_modifier': L(I(1))}],
    'message': [{'text': L(I(1))}, {'time': S('yesterday')}, {'vertical_depth': S('deep')}],
    'comment': [{'text': L(I(5))}, {'text': I(5)}],
    'no_format': [{'description': I(5)}],
    'well_reference_point': [{'permanent_datum': I(1)}, {'coordinate_1_value': S('x')}],
    'path': [{'frame_type': 'WRONGREF'}, {'value': 'WRONGREF'}, {'time': S('x')}],
    'origin': [{'well_name': I(5)}, {'creation_time': S('sometime')}, {'programs': L(I(1))}],
}


def gen_C20(tier, seed):
    rng = rng_for('C20', tier, seed)
    progs = []
    positions = ['first', 'between', 'after']
    for cls, bads in BAD_ARG.items():
        for bi, bad in enumerate(bads):
            for pos in positions if tier == 'thorough' else [positions[(bi + len(cls)) % 3]]:
                p = Prog(f'C20-{cls}-{bi}-{pos}', {'kind': 'rejected', 'cls': cls, 'pos': pos, 'cmpproj': True})
                for proc in (1, 2):     # process 2: the same history without the rejected calls
                    fid = proc
                    before = set(p._ch_arr)
                    p.file(fid, vrl=512)
                    lf = p.lf(fid, lf=proc, fh_id='REJECTED-CALLS')
                    o = p.origin(lf, name='ORIGIN') if cls != 'origin' else None
                    wrong = p.add(lf, 'comment', 'WRONG-CLASS', text=L(S('not what you want')))
                    good_kw = {}
                    name = 'SAME-NAME'

                    def reject():
                        if proc == 2:
                            return
                        if isinstance(bad, str) and bad.startswith('CAST'):
                            st = {'op': 'add', 'lf': lf, 'cls': 'channel', 'ref': p.ref('x'), 'name': name, 'kw': {},
                                  'cast_dtype': {'CAST': {'t': 'dtype', 'v': 'int64'}, 'CASTSTR': {'t': 'dtype', 'v': 'float32', 'as': 'str'},
                                                 'CASTCHAR': {'t': 'dtype', 'v': 'int32', 'as': 'char'},
                                                 'CASTPY': {'t': 'dtype', 'v': 'float64', 'as': 'pytype'}}[bad]}
                            p.steps.append(st)
                            return
                        raw = {}
                        for k_, v_ in bad.items():
                            if v_ is None:
                                continue
                            raw[k_] = (L(R(wrong)) if CLASSES[cls][2][k_][2].endswith('+') else R(wrong)) if v_ == 'WRONGREF' else v_
                        p.steps.append({'op': 'add', 'lf': lf, 'cls': cls, 'ref': p.ref('x'), 'name': name, 'kw': {}, 'rawkw': raw})

                    def accept(i):
                        if cls == 'channel':
                            return p.channel(lf, name, data=np.arange(3, dtype='float64') + i, set_name=None if i == 0 else f'S{i}')
                        if cls == 'frame':
                            ch = p.channel(lf, f'FCH{i}', data=np.arange(3, dtype='float64'))
                            return p.frame(lf, name, [ch])
                        if cls == 'origin':
                            return p.origin(lf, name=name, fsn=i + 1)
                        return p.add(lf, cls, name)

                    if pos == 'first':
                        reject()
                        accept(0)
                        accept(1) if cls not in ('channel',) else p.channel(lf, name, data=np.arange(3, dtype='float64'), set_name=None)
                    elif pos == 'between':
                        accept(0)
                        reject()
                        accept(1) if cls not in ('channel',) else p.channel(lf, name, data=np.arange(3, dtype='float64'), set_name=None)
                    else:
                        accept(0)
                        accept(1) if cls not in ('channel',) else p.channel(lf, name, data=np.arange(3, dtype='float64'), set_name=None)
                        reject()
                    if cls == 'origin':
                        pass
                    if cls != 'frame':
                        mine = [r for r in p._ch_arr if r not in before and r not in sum(p._frames.values(), [])]
                        if not mine:
                            mine = [p.channel(lf, 'DATA', data=np.arange(3, dtype='float64'))]
                        if cls == 'channel':      # same-named channels cannot share a frame
                            for j_, ch_ in enumerate(mine):
                                p.frame(lf, f'THE-FRAME-{j_}', [ch_])
                        else:
                            p.frame(lf, 'THE-FRAME', mine)
                    p.write(fid, fname=f'out{proc}.dlis')
                    if proc == 1:
                        p.next_proc()
                progs.append(p.build())
    # a rejected call in one logical file naming a set that another logical file uses (known finding K04: the parent set of a
    # rejected call stays registered in the logical file, the write is then refused as "set shared by logical files")
    for i, (cls, raw) in enumerate([('zone', {'description': I(5)}), ('axis', {'axis_id': I(5)}), ('equipment', {'serial_number': I(7)}),
                                    ('comment', {'text': I(3)}), ('tool', {'description': I(5)})]):
        p = Prog(f'C20-rejected-otherlf-{i}', {'kind': 'rejected', 'variant': 'set-of-other-lf', 'cls': cls, 'cmpproj': True})
        for proc in (1, 2):
            fid = proc
            p.file(fid, vrl=512)
            lfs = []
            for k in range(2):
                lf = p.lf(fid, lf=10 * proc + k, fh_id=f'LF-{k}', fh_seq=k + 1)
                sn = f'SET-{k}'
                p.origin(lf, name=f'O{k}', fsn=k + 1, set_name=sn)
                c = p.channel(lf, f'CH{k}', data=np.arange(3, dtype='float64'), set_name=sn)
                p.frame(lf, f'FR{k}', [c], set_name=sn)
                lfs.append(lf)
            order = [0, 1] if i % 2 else [1, 0]
            for which in order:
                if which == 0:
                    if proc == 1:     # rejected: logical file 0, default set of the class
                        p.steps.append({'op': 'add', 'lf': lfs[0], 'cls': cls, 'ref': p.ref('x'), 'name': 'REJECTED', 'kw': {}, 'rawkw': raw})
                else:                 # accepted: logical file 1, the same (default) set name
                    p.add(lfs[1], cls, 'ACCEPTED')
            p.write(fid, fname=f'out{proc}.dlis')
            if proc == 1:
                p.next_proc()
        progs.append(p.build())
    # a rejected add_channel that carried data must not leave the data behind
    for i, (bad, how) in enumerate([(b, h) for b in ({'units': I(5)}, {'axis': 'WRONGREF'}, 'CAST', {'dimension': L(F(1.5))}) for h in ('struct', 'missing', 'h5')]):
        p = Prog(f'C20-chdata-{i}', {'kind': 'rejected', 'cls': 'channel', 'pos': 'data-' + how, 'cmpproj': True})
        for proc in (1, 2):
            fid = proc
            p.file(fid, vrl=512)
            lf = p.lf(fid, lf=proc, fh_id='REJECTED-DATA')
            p.origin(lf, name='ORIGIN')
            wrong = p.add(lf, 'comment', 'WRONG-CLASS', text=L(S('x')))
            stale = p.array(np.arange(7000, 7004, dtype='float64'), aid='stale')
            if proc == 1:
                st = {'op': 'add', 'lf': lf, 'cls': 'channel', 'ref': p.ref('x'), 'name': 'RPM', 'kw': {}, 'data': stale}
                if bad == 'CAST':
                    st['cast_dtype'] = {'t': 'dtype', 'v': 'int64'}
                else:
                    st['rawkw'] = {k_: (L(R(wrong)) if v_ == 'WRONGREF' else v_) for k_, v_ in bad.items()}
                p.steps.append(st)
            d = p.channel(lf, 'DEPTH')
            r = p.channel(lf, 'RPM')
            p.frame(lf, 'FR', [d, r])
            da, ra = p.array(np.arange(4, dtype='float64'), aid='depth'), p.array(np.arange(4, dtype='float64') * 3, aid='rpm')
            if how == 'missing':     # nothing supplied for RPM: the write must fail, with or without the rejected call
                p.write(fid, route='dict', data_arrays={d: da}, valid=False, mustraise='missing', fname=f'o{proc}.dlis')
            else:
                p.write(fid, route=how, data_arrays={d: da, r: ra}, fname=f'o{proc}.dlis')
            if proc == 1:
                p.next_proc()
        progs.append(p.build())
    # a rejected later assignment (cast dtype, attribute value) between two writes
    for i in range(6 if tier == 'quick' else 30):
        p = Prog(f'C20-rejset-{i}', {'kind': 'rejected', 'cls': 'set', 'pos': 'between-writes', 'cmpproj': True})
        for proc in (1, 2):
            fid = proc
            p.file(fid, vrl=512)
            lf = p.lf(fid, lf=proc, fh_id='REJECTED-SET')
            p.origin(lf, name='ORIGIN')
            d = p.channel(lf, 'DEPTH')
            r = p.channel(lf, 'RPM')
            fr = p.frame(lf, 'FR', [d, r])
            z = p.add(lf, 'zone', 'ZONE', description=S('zone'))
            da = p.array(np.arange(4, dtype='float64'), aid='depth')
            r32 = p.array(np.arange(4, dtype='float32') * 1.5, aid='rpm32')
            r64 = p.array(np.arange(4, dtype='float64') * 1.1, aid='rpm64')
            p.write(fid, route='dict', data_arrays={d: da, r: r32}, fname=f'first{proc}.dlis')
            if proc == 1:
                which = i % 3
                if which == 0:
                    p.steps.append({'op': 'set', 'obj': r, 'part': 'cast_dtype', 'val': {'t': 'dtype', 'v': 'int64'}})
                elif which == 1:
                    p.set(z, 'description', I(5))
                else:
                    p.set(fr, 'spacing', S('wide'))
            p.write(fid, route='dict', data_arrays={d: da, r: r64}, fname=f'second{proc}.dlis')
            if proc == 1:
                p.next_proc()
        progs.append(p.build())
    # a write that raises must leave the specification usable
    for i in range(6 if tier == 'quick' else 40):
        p = Prog(f'C20-failedwrite-{i}', {'kind': 'failedwrite'})
        p.file(1, vrl=256)
        lf = p.lf(1, lf=1, fh_id='RECOVER')
        p.origin(lf, name='ORIGIN')
        c1, c2 = p.channel(lf, 'A'), p.channel(lf, 'B')
        p.frame(lf, 'FR', [c1, c2], index_type=EN('FrameIndexType', 'BOREHOLE_DEPTH') if i % 2 else None)
        good_a, good_b = p.array(np.arange(4, dtype='float64')), p.array(rand_array(rng, 'uint16', 4))
        how = i % 3
        if how == 0:       # missing dataset
            p.write(1, route='dict', data_arrays={c1: good_a}, valid=False, mustraise='missing', fname='bad.dlis')
        elif how == 1:     # unsupported dtype
            p.write(1, route='dict', data_arrays={c1: good_a, c2: p.array(np.arange(4, dtype='int64'))}, valid=False, mustraise='dtype', fname='bad.dlis')
        else:              # bad window
            p.write(1, route='dict', data_arrays={c1: good_a, c2: good_b}, valid=False, either=True, fname='bad.dlis', **{'from': 9})
        p.write(1, route='dict', data_arrays={c1: good_a, c2: good_b}, fname='good.dlis')
        p.next_proc(fresh=True)
        p.file(101, vrl=256)
        lf = p.lf(101, lf=101, fh_id='RECOVER')
        p.origin(lf, name='ORIGIN')
        c1, c2 = p.channel(lf, 'A'), p.channel(lf, 'B')
        p.frame(lf, 'FR', [c1, c2], index_type=EN('FrameIndexType', 'BOREHOLE_DEPTH') if i % 2 else None)
        p.write(101, route='dict', data_arrays={c1: good_a, c2: good_b}, fname='fresh.dlis')
        progs.append(p.build())
    progs += rewidth_programs('C20', rng)
    # a call that one version of the library accepts and another refuses (arguments that only fit together after a later
    # assignment): whether refused or not, the repeated call leaves exactly one object behind
    for i, cls in enumerate(['parameter', 'computation', 'calibration_measurement', 'channel']):
        p = Prog(f'C20-latecheck-{i}', {'kind': 'rejected', 'variant': 'latecheck', 'cls': cls, 'cmpproj': False})
        for proc in (1, 2):
            fid = proc
            p.file(fid, vrl=512)
            lf = p.lf(fid, lf=proc, fh_id='LATE-CHECKS')
            p.origin(lf, name='ORIGIN')
            c = p.channel(lf, 'DATA', data=np.arange(3, dtype='float64'))
            p.frame(lf, 'FRAME', [c])
            ax = p.add(lf, 'axis', 'AX', coordinates=L(F(1.0), F(2.0), F(3.0)) if proc == 1 else L(F(1.0), F(2.0)))
            kw = {'axis': L(R(ax)), 'dimension': L(I(2))}
            first = p.add(lf, cls, 'LATE', **kw) if cls != 'channel' else None
            if cls == 'channel':
                continue_ = None
                first = p.channel(lf, 'LATE', axis=L(R(ax)), dimension=L(I(2)))
            if proc == 1:
                p.set(ax, 'coordinates', L(F(1.0), F(2.0)))                   # now the axis fits the dimension
                st = dict(p.steps[[k for k, s_ in enumerate(p.steps) if s_.get('ref') == first][0]])
                st['ref'] = p.ref('retry')
                st['only_if_raised'] = first
                p.steps.append(st)
            p.write(fid, fname=f'out{proc}.dlis', valid=cls != 'channel', either=cls == 'channel')
            if proc == 1:
                p.next_proc()
        progs.append(p.build())
    return progs


GENERATORS3 = {'C12': gen_C12, 'C14': gen_C14, 'C17': gen_C17, 'C20': gen_C20}
