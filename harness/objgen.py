"""Generic generation of objects of all classes with valid attribute values (used by C04, C05, C07, C09, C12 ...)."""
import numpy as np

from build import BOOL, DICT, DT, EN, F, I, L, NOJ, R, S, SETUP
from objmodel import CLASSES

# creation order that makes every admissible reference target available
ORDER = ['axis', 'zone', 'long_name', 'well_reference_point', 'equipment', 'channel', 'frame', 'parameter', 'computation',
         'calibration_coefficient', 'calibration_measurement', 'calibration', 'tool', 'process', 'splice', 'path',
         'group', 'message', 'comment', 'no_format']

ENUM_MEMBERS = {
    'Unit': ['METER', 'SECOND', 'KILOGRAM', 'FOOT', 'DEGREE_ANGLE', 'API_GAMMA_RAY'],
    'Property': ['AVERAGED', 'CALIBRATED', 'NORMALIZED', 'FILTERED'],
    'FrameIndexType': ['BOREHOLE_DEPTH', 'NON_STANDARD', 'VERTICAL_DEPTH'],
    'ZoneDomain': ['BOREHOLE_DEPTH', 'TIME', 'VERTICAL_DEPTH'],
    'EquipmentType': ['ADAPTER', 'CARTRIDGE', 'CABLE'],
    'EquipmentLocation': ['LOGGING_SYSTEM', 'RIG', 'WELL'],
    'ProcessStatus': ['COMPLETE', 'ABORTED', 'IN_PROGRESS'],
    'CalibrationMeasurementPhase': ['AFTER', 'BEFORE', 'MASTER'],
}

PRINTABLE = ''.join(chr(c) for c in range(32, 127))
IDCHARS = 'ABCDEFGHIJKLMNOPQRSTUVWXYZ0123456789-_'


def text(rng, n):
    s = ''.join(rng.choice(PRINTABLE) for _ in range(n))
    # texts that look like numbers or dates are converted by some attributes (documented); keep clear of them
    if s.strip() and (s.strip()[0] in '0123456789+-.' or s.strip()[0] in ' '):
        s = 'T' + s[1:]
    return s


def ident(rng, n):
    return ''.join(rng.choice(IDCHARS) for _ in range(n))


def number(rng, kind='any'):
    r = rng.random()
    if kind == 'int' or (kind == 'any' and r < 0.4):
        return I(rng.choice([0, 1, -1, 127, 128, 255, 256, -128, -129, 32767, 32768, -32768, 65535, 65536, 2 ** 31 - 1,
                             -2 ** 31, rng.randint(-10 ** 6, 10 ** 6)]))
    return F(rng.choice([0.0, 1.5, -2.25, 1e-300, 1e300, 3.141592653589793, float('inf'), float('-inf'), 123456.789,
                         rng.uniform(-1e6, 1e6)]))


def scalar_for(kind, rng, refs, textlen=None, free_enum=False):
    """One valid scalar valspec for an attribute kind (without the + / ++ suffix)."""
    if kind == 'T':
        return S(text(rng, textlen if textlen is not None else rng.choice([0, 1, 5, 20, 127, 128, 300])))
    if kind == 'I':
        return S(ident(rng, textlen if textlen is not None else rng.choice([1, 3, 10, 60, 127])))
    if kind == 'N':
        return number(rng)
    if kind == 'N16':
        return I(rng.choice([0, 1, 255, 256, 65535, rng.randint(0, 65535)]))
    if kind == 'NU':
        return I(rng.choice([0, 1, 127, 128, 16383, 16384, 2 ** 30 - 1, rng.randint(0, 2 ** 30 - 1)]))
    if kind == 'NF':
        return number(rng, 'float') if rng.random() < 0.7 else I(rng.randint(-1000, 1000))
    if kind == 'N8':
        return I(rng.choice([0, 1]))
    if kind == 'Ni':
        return I(rng.randint(0, 10 ** 6))
    if kind == 'S':
        return rng.choice([I(0), I(1), BOOL(True), BOOL(False)])
    if kind == 'DT':
        return DT(rng.choice([1900, 1987, 2000, 2024, 2155]), rng.randint(1, 12), rng.randint(1, 28), rng.randint(0, 23),
                  rng.randint(0, 59), rng.randint(0, 59), rng.choice([0, 1000, 499, 500, 999999, 123456]),
                  tzmin=rng.choice([0, 0, 330, -660]))
    if kind == 'DTN':
        return scalar_for('DT', rng, refs) if rng.random() < 0.6 else F(rng.uniform(0, 1e6))
    if kind.startswith('R:'):
        cands = refs.get(kind[2:], [])
        return R(rng.choice(cands)) if cands else None
    if kind in ('R*', 'R?'):
        allr = [r for t, rs in refs.items() if t not in ('ORIGIN',) for r in rs]
        return R(rng.choice(allr)) if allr else None
    if kind.startswith('RT:'):
        cands = refs.get(kind[3:], [])
        if cands and rng.random() < 0.5:
            return R(rng.choice(cands))
        return S(text(rng, rng.choice([1, 8, 40])))
    if kind.startswith('E:'):
        en = kind[2:]
        if free_enum and en in ('Unit', 'FrameIndexType', 'EquipmentType', 'EquipmentLocation'):
            return S('X-' + ident(rng, 4))
        m = rng.choice(ENUM_MEMBERS[en])
        if rng.random() < 0.5:
            return EN(en, m)
        from_str = {'Unit': {'METER': 'm', 'SECOND': 's', 'KILOGRAM': 'kg', 'FOOT': 'ft', 'DEGREE_ANGLE': 'deg', 'API_GAMMA_RAY': 'gAPI'}}
        if en in from_str:
            return S(from_str[en][m])
        return EN(en, m)
    if kind == 'ANY':
        return number(rng) if rng.random() < 0.7 else S('T' + ident(rng, 3))
    raise ValueError(kind)


def value_for(kind, rng, refs, mult=None, nojudge_dims=False):
    """A valid valspec for the attribute kind; None when no admissible value exists (e.g. no reference target yet)."""
    base = kind.rstrip('+')
    plus = len(kind) - len(base)
    if base == 'Dm':
        n = rng.choice([1, 1, 2, 3])
        return L(*[I(rng.randint(1, 9)) for _ in range(n)])
    if plus == 0:
        return scalar_for(base, rng, refs)
    m = mult if mult is not None else rng.choice([1, 1, 2, 3, 5])
    if base == 'ANY':      # homogeneous: all numbers or all strings
        if rng.random() < 0.7:
            kindn = rng.choice(['int', 'float'])
            vals = [number(rng, kindn) for _ in range(m)]
        else:
            vals = [S('T' + ident(rng, 3)) for _ in range(m)]
    elif base == 'N':
        kindn = rng.choice(['int', 'float'])
        vals = [number(rng, kindn) for _ in range(m)]
    else:
        vals = [scalar_for(base, rng, refs, textlen=rng.choice([1, 5, 30]) if base in ('T', 'I') else None) for _ in range(m)]
    if any(v is None for v in vals):
        return None
    if base.startswith('R') and len({v['obj'] for v in vals}) != len(vals) and rng.random() < 0.5:
        pass   # shared / repeated targets are allowed
    if plus == 2 and rng.random() < 0.4 and m >= 2:
        half = m // 2
        if half * 2 == m:
            return L(L(*vals[:half]), L(*vals[half:]))
    return L(*vals)


def with_units(v, rng, route=None):
    """Wrap a value with units through one of the assignment routes."""
    u = rng.choice([EN('Unit', rng.choice(ENUM_MEMBERS['Unit'])), S(rng.choice(['m', 's', 'ft', 'kg', 'deg']))])
    route = route or rng.choice(['setup', 'dict'])
    return SETUP(v, u) if route == 'setup' else DICT(v, u)


UNITS_OK = {'N', 'NF', 'N16', 'NU', 'Ni', 'N8', 'ANY', 'DTN'}


def make_kwargs(cls, rng, refs, pattern='random', mult=None, units_p=0.3, skip=()):
    """Keyword arguments (valspecs) for add_<cls>: subset by pattern, values by kind."""
    table = CLASSES[cls][2]
    names = [k for k in table if k not in skip]
    if pattern == 'none':
        chosen = []
    elif pattern == 'first':
        chosen = names[:1]
    elif pattern == 'last':
        chosen = names[-1:]
    elif pattern == 'alternating':
        chosen = names[::2]
    elif pattern == 'all':
        chosen = names
    else:
        chosen = [k for k in names if rng.random() < 0.5]
    kw = {}
    same_count = None
    zone_dt = rng.random() < 0.5
    for k in chosen:
        kind = table[k][2]
        m = mult
        if cls == 'calibration_coefficient' and kind == 'N+':
            same_count = same_count or (mult or rng.choice([1, 2, 3]))
            m = same_count
        if cls == 'calibration_measurement' and k in ('maximum_deviation', 'standard_deviation', 'standard', 'plus_tolerance', 'minus_tolerance', 'measurement', 'reference'):
            same_count = same_count or (mult or rng.choice([1, 2, 3]))
            m = same_count
        if cls in ('parameter', 'computation') and k == 'values':
            zs = kw.get('zones')
            m = len(zs['v']) if zs is not None else 1
            kind = kind.rstrip('+') + '+'      # flat: one value per zone
        if cls == 'splice' and k == 'zones' and kw.get('input_channels') is not None:
            m = len(kw['input_channels']['v'])
        if cls == 'calibration_measurement' and kind == 'N++':
            kind = 'N+'     # flat lists: keeps the derived DIMENSION consistent between the attributes
        if cls == 'zone' and k in ('maximum', 'minimum'):
            dom = kw.get('domain')
            is_time = dom is not None and (dom.get('member') == 'TIME' or dom.get('v') == 'TIME')
            if dom is not None and not is_time:
                kind = 'NFLOAT'
            elif dom is not None and is_time:
                kind = 'DT'
            else:
                kind = 'DT' if zone_dt else 'NFLOAT'
        v = value_for(kind, rng, refs, mult=m) if kind != 'NFLOAT' else F(rng.uniform(0, 5000))
        if v is None:
            continue
        if cls in ('parameter', 'computation', 'calibration_measurement') and k in ('dimension', 'axis'):
            continue     # consistency with values / axes is a separate topic (C12 fringe); leave unset here
        if cls == 'channel' and k in ('dimension', 'element_limit', 'axis'):
            continue
        base = kind.rstrip('+')
        if base in UNITS_OK and rng.random() < units_p:
            v = with_units(v, rng)
        kw[k] = v
    return kw


def add_all_classes(p, lf, rng, refs=None, per_class=1, pattern='random', mult=None, set_name=None, classes=None,
                    data_rows=3):
    """Adds objects of every class (in ORDER) to logical file lf; channels get inline data and go into one frame.

    Returns refs: set type -> list of refs."""
    refs = refs if refs is not None else {}
    chans = []
    for cls in ORDER:
        if classes is not None and cls not in classes:
            continue
        st = CLASSES[cls][0]
        for j in range(per_class):
            nm = f'{st[:6]}-{j + 1}'
            if cls == 'channel':
                kw = make_kwargs(cls, rng, refs, pattern, mult)
                a = (np.arange(data_rows) + j).astype(['float64', 'int32', 'uint8', 'float32'][j % 4])
                r = p.channel(lf, nm, data=a, set_name=set_name, **kw)
                chans.append(r)
            elif cls == 'frame':
                if j > 0 or not chans:
                    continue
                kw = make_kwargs(cls, rng, refs, pattern, mult, skip=('channels', 'index_type', 'spacing', 'index_min', 'index_max', 'direction', 'encrypted'))
                r = p.frame(lf, nm, chans, set_name=set_name, **kw)
            else:
                kw = make_kwargs(cls, rng, refs, pattern, mult)
                r = p.add(lf, cls, nm, set_name=set_name, **kw)
            refs.setdefault(st, []).append(r)
    return refs
