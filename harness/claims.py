"""What MANIFEST.json claims per property (text only; the machinery is in registry.py / scen.py / spec/)."""

TRUST = ('Trusted: the two guarded taps and the API wrapper of harness/driver.py report faithfully (selftest corrupts fields / removes hooks to '
         'show rejection); the transcription of RP66 V1 in spec/RP66*.tla; numpy/IEEE/time-zone conversions used only to state expected values; TLC itself. '
         'Exhaustive only for the model within the stated constants; the code is covered by the executed scenarios.')

TECH = 'TLA+ specification checked with TLC (exhaustive, bounded) + TLC trace validation of recorded executions of the real code'

CLAIMS = {
    'C01': {'text': 'TLC checks exhaustively (bounded window of record lengths x record sizes x buffer sizes) that the implementation-shaped Segmenter model only '
                    'produces files the strict normative reader RP66Frame accepts; the same reader, evaluated by TLC, judges the bytes of every file produced by the real code in the '
                    'scenario set (every (capacity, length) pair of the window, boundary lengths at large capacities, label variants, API-built files); the model is re-run on the recorded inputs to detect drift.',
            'design_ref': 'DESIGN.md 3.2, 3.3, 6/C01', 'note': TRUST, 'technique': TECH},
    'C02': {'text': 'Same models; the trace specification reassembles the segments of every written file and compares record by record with the lr-tap (the records handed to the segmenter): count, order, bodies, type, EFLR flag, predecessor/successor discipline.',
            'design_ref': 'DESIGN.md 3.2, 3.3, 6/C02', 'note': TRUST, 'technique': TECH},
    'C06': {'text': 'TLC proves the encoders and the independently written decoders of RP66Prim inverse over boundary-complete domains; every call of the public write_struct dispatch in the scenario set '
                    '(range edges, UVARI thresholds, string lengths around 127/128/255/256/16383/16384, date-time grid, object names, cache-collision orders) is an event judged by TLC against Enc of the specification, including mandatory rejection.',
            'design_ref': 'DESIGN.md 3.1, 6/C06', 'note': TRUST, 'technique': TECH},
    'C10': {'text': 'TLC checks on the Segmenter model that the disk only ever holds label + whole visible records, grows by appending, that buffering is transparent and the reported total is the file size, for all modelled buffer sizes; '
                    'on the real code one specification is written under many input/output chunk sizes over pre-filled targets, the file being read at every flush-tap; TLC compares prefixes, boundaries, totals and whole files.',
            'design_ref': 'DESIGN.md 3.3, 6/C10', 'note': TRUST, 'technique': TECH},
    'C15': {'text': 'TLC checks Segmenter.Writable (no raise for any valid input) for every record length 0.. of the window and every even record length from 20; the real code is driven through size-ordered valid specifications (record bodies 0..29 bytes at every small record length, one-byte frames with name lengths 1.., tiny no-format payloads) and TLC requires a successful, well-formed write.',
            'design_ref': 'DESIGN.md 3.3, 6/C15', 'note': TRUST, 'technique': TECH},
    'C16': {'text': 'The trace specification decodes every NOFMT record of the written file and compares reference and payload, in order, with the payloads recorded at add_no_format_frame_data; lossless segmentation of arbitrary bodies is model-checked on Segmenter.',
            'design_ref': 'DESIGN.md 6/C16', 'note': TRUST, 'technique': TECH},
    'C03': {'text': 'Every FDATA record of every written file is located by TLC through the decoded FRAME/CHANNEL objects, sliced by the decoded representation codes and dimensions, and compared slot by slot with the big-endian image of the input rows (dtype x byte order x layout x width x rows x chunk x record length x cast, special bit patterns); numbering 1..N and record count are checked per frame.',
            'design_ref': 'DESIGN.md 6/C03', 'note': TRUST, 'technique': TECH},
    'C04': {'text': 'The component grammar RP66EFLR (set, template, objects, attribute components with inherited defaults) is evaluated by TLC on every EFLR body reassembled from files holding all object classes under attribute-subset patterns, multiplicities up to 200, named/unnamed sets and empty lists; the encoder/decoder of primitive values it relies on are model-checked (PrimModel).',
            'design_ref': 'DESIGN.md 3.4, 6/C04', 'note': TRUST, 'technique': TECH},
    'C05': {'text': 'The trace specification folds the history of API calls into Canon (the current specification) and requires, for every assigned attribute of every object, an equal decoded value/units under the standard label in the set of that type and name; unassigned attributes must be absent unless documented additions.',
            'design_ref': 'DESIGN.md 3.5, 6/C05', 'note': TRUST, 'technique': TECH},
    'C07': {'text': 'On the decoded file TLC checks identity uniqueness per logical file, that every OBNAME/OBJREF value and every IFLR reference resolves to exactly one object of the admissible type defined earlier, that it is the object the history passed (via Canon), and that every origin field is the origin of an ORIGIN object of the logical file.',
            'design_ref': 'DESIGN.md 6/C07', 'note': TRUST, 'technique': TECH},
    'C08': {'text': 'For each expected frame TLC compares decoded REPRESENTATION-CODE / DIMENSION / ELEMENT-LIMIT of the listed channels with the data written and requires every FDATA record length to equal reference + frame number + sum of code size x product of dimensions.',
            'design_ref': 'DESIGN.md 6/C08', 'note': TRUST, 'technique': TECH},
    'C09': {'text': 'TLC checks on the decoded record sequence: FILE-HEADER first with one object and the justified SEQUENCE-NUMBER / ID of Canon, ORIGIN set next with FILE-ID = header id and FILE-SET-NUMBER present, set (type, name) unique and non-empty, referenced objects defined before the first IFLR that refers to them.',
            'design_ref': 'DESIGN.md 6/C09', 'note': TRUST, 'technique': TECH},
    'C11': {'text': 'The trace specification keys every successful write by (Canon, expected rows, label); writes with equal keys must have equal bytes. Scenarios give the same data inline, as dict, structured array (fast path and copy path), HDF5 and pre-sliced, with windows and chunk sizes; slot order is checked against the frame channel list.',
            'design_ref': 'DESIGN.md 6/C11', 'note': TRUST, 'technique': TECH},
    'C12': {'text': 'Every class of unrepresentable input named by the property is generated in otherwise valid content; TLC requires the write to raise (C12.MustRaise) and, for degenerate inputs that may be written, that every C01-C09/C16 clause holds on the file (composite clause).',
            'design_ref': 'DESIGN.md 6/C12', 'note': TRUST, 'technique': TECH},
    'C13': {'text': 'From the expected rows of the index channel (integer-valued data of every dtype) TLC recomputes min, max and consecutive differences in exact integer arithmetic and compares with the decoded INDEX-MIN/MAX/SPACING/DIRECTION, including user-supplied values, windows and write-write histories.',
            'design_ref': 'DESIGN.md 6/C13', 'note': TRUST, 'technique': TECH},
    'C14': {'text': 'Histories run in one process (other files built and written first, names reused with other origin/copy/type/value, compatibility mode entered and left, the same object written twice, mutation after a write) are compared by TLC with a fresh process that builds the final Canon alone: equal Canon and data => equal bytes (and equal outcome). TLC checks the implementation-shaped WriteHistory model (everything kept from one write to the next: caches, derived dtype, derived index bounds, guessed codes, counts) exhaustively up to 5 (thorough 7) operations and generates histories from it (simulation + exhaustive enumeration of a small alphabet) that are replayed on the real objects, each followed by its fresh process; projection drift is reported. The DerivedDefaults model (defaults the library fills into the user\'s own attributes at a write - LONG-NAME, DIMENSION, ELEMENT-LIMIT, parameter DIMENSION - and has to tell from the user\'s values at the next write) is checked exhaustively up to 6 (thorough 10) operations and bound the same way.',
            'design_ref': 'DESIGN.md 6/C14', 'note': TRUST, 'technique': TECH},
    'C17': {'text': 'The flag is modelled as a save/restore stack; after every event the observed global flag must equal the model (normal exit, exit by exception, nested, decorator). TLC derives breaches from Canon (names, header id, set identifier, enumerated values) and from the data (signed integers; generator-claimed: channel/frame cardinality, non-uniform index) and forbids a successful write inside the mode; outside it the same inputs must be accepted.',
            'design_ref': 'DESIGN.md 6/C17', 'note': TRUST, 'technique': TECH},
    'C18': {'text': 'TLC splits the decoded file into logical files at FILE-HEADER records and compares each with the Canon of the i-th logical file: headers, per-set inventories (no object missing, none from another logical file), per-frame rows and numbering; shared-set configurations may raise or must be written uncontaminated.',
            'design_ref': 'DESIGN.md 6/C18', 'note': TRUST, 'technique': TECH},
    'C19': {'text': 'Every write event carries the bytes of every caller-owned base buffer (whole buffer around views), the key list / value identities of the dict and the SHA-256 of the HDF5 file before and after; TLC requires equality for successful and failed writes.',
            'design_ref': 'DESIGN.md 6/C19', 'note': TRUST + ' SHA-256 of the HDF5 file is computed by the harness.', 'technique': TECH},
    'C20': {'text': 'Rejected calls do not enter Canon, so any trace of them in a later file is a mismatch with Canon; process 2 replays the history without the rejected calls and TLC compares the projections (copy number, origin reference, dataset name) of the accepted objects; a failed write followed by a good one is compared with a fresh process; the WriteHistory and DerivedDefaults histories with a refused assignment / a refused write are replayed with their fresh processes.',
            'design_ref': 'DESIGN.md 6/C20', 'note': TRUST, 'technique': TECH},
}

NOT_APPLICABLE = {}
