"""What MANIFEST.json claims per property (text only; the machinery is in registry.py / scen.py / spec/)."""

TRUST = ('Trusted: the two guarded taps and the API wrapper of harness/driver.py report faithfully (selftest corrupts fields / removes hooks to '
         'show rejection); the transcription of RP66 V1 in spec/RP66*.tla; numpy/IEEE/time-zone conversions used only to state expected values; TLC itself. '
         'Exhaustive only for the model within the stated constants; the code is covered by the executed scenarios.')

TECH = 'TLA+ specification checked with TLC (exhaustive, bounded) + TLC trace validation of recorded executions of the real code'

CLAIMS = {
    'C01': {'text': 'TLC checks exhaustively (bounded window of record lengths x record sizes x buffer sizes) that the implementation-shaped Segmenter model only '
                    'produces files the strict normative reader RP66Frame accepts; the same reader, evaluated by TLC, judges the bytes of every file produced by the real code in the '
                    'scenario set (every (capacity, length) pair of the window, boundary lengths at large capacities, label variants, API-built files); the model is re-run on the recorded inputs to detect drift.',
            'design_ref': 'DESIGN.md 3.2, 3.3, 6/C01', 'note': TRUST, 'technique': TECH},
    'C02': {'text': 'Same models; the trace specification reassembles the segments of every written file and compares record by record with the lr-tap (the records handed to the segmenter): count, order, bodies, type, EFLR flag, predecessor/successor discipline.',
            'design_ref': 'DESIGN.md 3.2, 3.3, 6/C02', 'note': TRUST, 'technique': TECH},
    'C06': {'text': 'TLC proves the encoders and the independently written decoders of RP66Prim inverse over boundary-complete domains; every call of the public write_struct dispatch in the scenario set '
                    '(range edges, UVARI thresholds, string lengths around 127/128/255/256/16383/16384, date-time grid, object names, cache-collision orders) is an event judged by TLC against Enc of the specification, including mandatory rejection.',
            'design_ref': 'DESIGN.md 3.1, 6/C06', 'note': TRUST, 'technique': TECH},
    'C10': {'text': 'TLC checks on the Segmenter model that the disk only ever holds label + whole visible records, grows by appending, that buffering is transparent and the reported total is the file size, for all modelled buffer sizes; '
                    'on the real code one specification is written under many input/output chunk sizes over pre-filled targets, the file being read at every flush-tap; TLC compares prefixes, boundaries, totals and whole files.',
            'design_ref': 'DESIGN.md 3.3, 6/C10', 'note': TRUST, 'technique': TECH},
    'C15': {'text': 'TLC checks Segmenter.Writable (no raise for any valid input) for every record length 0.. of the window and every even record length from 20; the real code is driven through size-ordered valid specifications (record bodies 0..29 bytes at every small record length, one-byte frames with name lengths 1.., tiny no-format payloads) and TLC requires a successful, well-formed write.',
            'design_ref': 'DESIGN.md 3.3, 6/C15', 'note': TRUST, 'technique': TECH},
    'C16': {'text': 'The trace specification decodes every NOFMT record of the written file and compares reference and payload, in order, with the payloads recorded at add_no_format_frame_data; lossless segmentation of arbitrary bodies is model-checked on Segmenter.',
            'design_ref': 'DESIGN.md 6/C16', 'note': TRUST, 'technique': TECH},
}

_WIP = 'not yet claimed in this revision: the specification modules for it exist or are being built, the check is not registered until it runs clean'
NOT_APPLICABLE = {p: _WIP for p in ['C03', 'C04', 'C05', 'C07', 'C08', 'C09', 'C11', 'C12', 'C13', 'C14', 'C17', 'C18', 'C19', 'C20']}
