"""Scenario generators: programs for driver.py, per property.  Structure is fixed by tier; free values by seed."""
import random
import struct

import numpy as np

from build import BOOL, DICT, DT, EN, F, FB, I, L, NOJ, R, S, SETUP, Prog
from lib import slimbs

DTYPES = ['int8', 'int16', 'int32', 'uint8', 'uint16', 'uint32', 'float32', 'float64']


def rng_for(pid, tier, seed):
    return random.Random(f'{pid}/{tier}/{seed}')


def window(cap):
    return list(range(0, 3 * cap + 14))


def edge_lengths(cap, kmax=3, dmax=13):
    out = set()
    for k in range(0, kmax + 1):
        for d in range(-dmax, dmax + 1):
            v = k * cap + d
            if v >= 0:
                out.add(v)
    return sorted(out)


def rec(eflr, typ, n):
    return {'eflr': bool(eflr), 'type': typ, 'len': n}


RTYPES = [(True, 3), (False, 0), (False, 1), (True, 0), (True, 5)]


# ----------------------------------------------------------------------------------------------------------------------
# small valid files used by many properties
# ----------------------------------------------------------------------------------------------------------------------
def rand_name(rng, n=None, alphabet='ABCDEFGHIJKLMNOPQRSTUVWXYZ0123456789_-'):
    n = n or rng.randint(1, 8)
    return ''.join(rng.choice(alphabet) for _ in range(n))


def rand_array(rng, dtype, rows, width=None, special=False):
    dt = np.dtype(dtype)
    shape = (rows,) if width is None else (rows, width)
    n = int(np.prod(shape))
    if dt.kind == 'f':
        raw = bytes(rng.getrandbits(8) for _ in range(n * dt.itemsize))
        a = np.frombuffer(raw, dtype=dt).copy()
        if not special:
            a = np.where(np.isfinite(a), a, dt.type(1.5)).astype(dt)
    else:
        info = np.iinfo(dt)
        a = np.array([rng.choice([info.min, info.max, 0, 1, rng.randint(info.min, info.max)]) for _ in range(n)], dtype=dt)
    return a.reshape(shape)


def simple_file(p, rng, fid=1, vrl=None, nchan=2, rows=4, lfs=1, dtypes=None, widths=None, index_type=None,
                origin_first=True, names=None, extra_objects=False, fh_id=None):
    """A valid file: per logical file an origin, nchan channels with inline data, one frame.  Returns dict of refs."""
    kw = {}
    if vrl is not None:
        kw['vrl'] = vrl
    p.file(fid, **kw)
    out = {'lfs': [], 'frames': [], 'chans': [], 'origins': []}
    for k in range(lfs):
        lf = p.lf(fid, fh_id=fh_id if fh_id is not None else f'LF-{fid}-{k + 1}', fh_seq=k + 1)
        out['lfs'].append(lf)
        if origin_first:
            out['origins'].append(p.origin(lf, name=f'ORIGIN{k + 1}', fsn=k + 1))
        chans = []
        for c in range(nchan):
            dt = (dtypes or DTYPES)[(c + k) % len(dtypes or DTYPES)]
            w = widths[c % len(widths)] if widths else None
            if c == 0 and index_type:
                a = (np.arange(rows) * 2 + 10).astype(dt)
            else:
                a = rand_array(rng, dt, rows, w)
            nm = names[c] if names else f'CH{c + 1}'
            sn = f'SET{k + 1}' if lfs > 1 else None
            chans.append(p.channel(lf, nm, data=a, set_name=sn))
        out['chans'].append(chans)
        fkw = {}
        if index_type:
            fkw['index_type'] = index_type
        if lfs > 1:
            fkw['set_name'] = f'SET{k + 1}'
        out['frames'].append(p.frame(lf, f'FRAME{k + 1}', chans, **fkw))
        if not origin_first:
            out['origins'].append(p.origin(lf, name=f'ORIGIN{k + 1}', fsn=k + 1))
        if extra_objects:
            sn = f'SET{k + 1}' if lfs > 1 else None
            ax = p.add(lf, 'axis', 'AX1', axis_id=S('AXID'), coordinates=L(F(1.0), F(2.5)), spacing=F(0.5), set_name=sn)
            zn = p.add(lf, 'zone', 'ZN1', description=S('zone one'), domain=EN('ZoneDomain', 'TIME'),
                       maximum=DT(2021, 1, 1), minimum=DT(2020, 1, 1), set_name=sn)
            p.add(lf, 'parameter', 'PAR1', long_name=S('a parameter'), zones=L(R(zn)), values=L(F(3.0)), set_name=sn)
            nf = p.add(lf, 'no_format', 'NOF1', consumer_name=S('CONSUMER'), description=S('blob'), set_name=sn)
            p.nofmt(lf, nf, bytes(range(40)))
            p.add(lf, 'comment', 'CMT1', text=L(S('first'), S('second')), set_name=sn)
    return out


# ----------------------------------------------------------------------------------------------------------------------
# C01 / C02 / C15 (framing level)
# ----------------------------------------------------------------------------------------------------------------------
def gen_framing_grid(pid, tier, rng, with_watch=False, small_only=False):
    progs = []
    small = [20, 22, 24, 26, 30, 32, 40] if tier == 'quick' else list(range(20, 74, 2))
    n = 0
    for vrl in small:
        cap = vrl - 8
        for Ln in window(cap) if tier == 'quick' else list(range(0, 5 * cap + 14)):
            n += 1
            e, t = RTYPES[n % len(RTYPES)]
            oc = [vrl, vrl + 2, 2 * vrl + 6, 65536][n % 4]
            p = Prog(f'{pid}-grid-{vrl}-{Ln}', {'kind': 'grid', 'vrl': vrl, 'L': Ln})
            p.low(vrl, [rec(e, t, Ln)], out_chunk=oc, watch_disk=with_watch)
            progs.append(p.build())
    if small_only:
        return progs
    big = [64, 128, 1024, 8192, 16384] if tier == 'quick' else [64, 100, 128, 256, 1000, 1024, 4096, 8190, 8192, 16382, 16384]
    for vrl in big:
        cap = vrl - 8
        lens = edge_lengths(cap, kmax=1 if (tier == 'quick' and vrl > 1024) else (2 if vrl > 1024 else 3))
        if tier == 'quick' and vrl > 1024:
            lens = [x for x in lens if x % 3 == rng.randint(0, 2) or abs(x - cap) <= 2]
        for Ln in lens:
            n += 1
            e, t = RTYPES[n % len(RTYPES)]
            oc = [vrl, vrl + 2, 2 * vrl + 6, 65536][n % 4]
            p = Prog(f'{pid}-edge-{vrl}-{Ln}', {'kind': 'edge', 'vrl': vrl, 'L': Ln})
            p.low(vrl, [rec(e, t, Ln)], out_chunk=oc)
            progs.append(p.build())
    return progs


def gen_multirec(pid, tier, rng):
    progs = []
    vrls = [20, 24, 32, 64] if tier == 'quick' else [20, 22, 24, 28, 32, 40, 64, 128]
    for vrl in vrls:
        cap = vrl - 8
        edge = [0, 1, 11, 12, 13, cap - 1, cap, cap + 1, cap + 11, cap + 12, 2 * cap + 5, 3 * cap + 12]
        combos = [(a, b) for a in edge for b in edge]
        if tier == 'quick':
            combos = rng.sample(combos, 40)
        for i, (a, b) in enumerate(combos):
            ta, tb = RTYPES[i % 5], RTYPES[(i // 5 + 1) % 5]
            recs = [rec(ta[0], ta[1], a), rec(tb[0], tb[1], b)]
            if i % 3 == 0:
                c = rng.choice(edge)
                tc = RTYPES[(i + 2) % 5]
                recs.append(rec(tc[0], tc[1], c))
            p = Prog(f'{pid}-multi-{vrl}-{i}', {'kind': 'multirec', 'vrl': vrl})
            p.low(vrl, recs, out_chunk=[vrl, vrl + 2, 3 * vrl - 2, 65536][i % 4], watch_disk=(i % 2 == 0))
            progs.append(p.build())
    return progs


def gen_labels(pid, tier, rng):
    progs = []
    for i, (seq, idl) in enumerate([(1, 1), (9, 10), (10, 30), (9999, 60), (123, 0 if False else 5), (42, 59)]):
        sid = rand_name(rng, idl, 'ABCDEFGHIJKLMNOPQRSTUVWXYZ abcdefghijklmnopqrstuvwxyz0123456789-_.')
        sid = sid.strip() or 'X'
        p = Prog(f'{pid}-label-{i}', {'kind': 'label'})
        p.low(64, [rec(True, 3, 30)], seq=seq, setid=sid)
        progs.append(p.build())
        # and through the public API
        q = Prog(f'{pid}-label-hl-{i}', {'kind': 'label-hl'})
        simple_file(q, rng, vrl=[128, 8192, 256][i % 3])
        q.steps[0].update({'seq': seq, 'setid': sid})
        q.write(1)
        progs.append(q.build())
        # ... and with a ready-made StorageUnitLabel instance
        q = Prog(f'{pid}-label-obj-{i}', {'kind': 'label-obj'})
        simple_file(q, rng, vrl=[128, 1024, 256, 64, 512, 20][i % 6], nchan=3, rows=4, widths=[None, 40, 3])
        q.steps[0].update({'seq': seq, 'setid': sid, 'label': 'ready'})
        q.write(1)
        progs.append(q.build())
    return progs


def gen_bad_label_numbers(pid):
    import random
    rng0 = random.Random('badlabel')
    """Storage unit sequence numbers that are no positive integer of at most four digits (at creation, or assigned to the
    label later): refused, or the label is still well-formed and carries the number."""
    progs = []
    for i, (seq, how) in enumerate([(-3, 'kw'), (0, 'kw'), (10000, 'kw'), (-3, 'label'), (0, 'set'), (-12, 'set'), (99999, 'set'), (2.5, 'set'), (2.5, 'kw')]):
        p = Prog(f'{pid}-badseq-{i}', {'kind': 'badlabel', 'fringe': True, 'seq': seq, 'how': how})
        simple_file(p, rng0, vrl=256, nchan=1, rows=2)
        if how == 'kw':
            p.steps[0].update({'seq': seq})
        elif how == 'label':
            p.steps[0].update({'seq': seq, 'label': 'ready'})
        else:
            p.set_sul(1, 'sequence_number', seq)
        p.write(1, valid=False, either=True)
        progs.append(p.build())
    # text that is not ASCII in the fixed-width fields (set identifier of the label, header id): refused, or the fields keep their width
    for i, (what, txt) in enumerate([('setid', 'BR\u00d8NN 7/11-A'), ('setid', 'BHT 85\u00b0C'), ('setid-label', 'caf\u00e9'), ('setid-set', '\u00e9t\u00e9'),
                                     ('hdrid', 'HEADER \u00c5'), ('setid', 'X' * 59 + '\u00e9')]):
        p = Prog(f'{pid}-nonascii-{i}', {'kind': 'badlabel', 'fringe': True, 'what': what})
        simple_file(p, rng0, vrl=256, nchan=1, rows=2, fh_id=txt if what == 'hdrid' else None)
        if what == 'setid':
            p.steps[0].update({'setid': txt})
        elif what == 'setid-label':
            p.steps[0].update({'setid': txt, 'label': 'ready'})
        elif what == 'setid-set':
            p.set_sul(1, 'set_identifier', txt)
        p.write(1, valid=False, either=True)
        progs.append(p.build())
    return progs


def gen_label_rewrite(pid, tier, rng):
    """The same DLISFile written as several units of a storage set: the label attributes are changed between the writes."""
    progs = []
    for i in range(4 if tier == 'quick' else 24):
        p = Prog(f'{pid}-relabel-{i}', {'kind': 'relabel'})
        simple_file(p, rng, vrl=[64, 128, 256, 8192][i % 4], nchan=2, rows=3)
        p.steps[0].update({'seq': 1, 'setid': 'SET-ONE'})
        p.write(1, fname='unit1.dlis')
        what = ['sequence_number', 'set_identifier', 'max_record_length', 'all'][i % 4]
        if what in ('sequence_number', 'all'):
            p.set_sul(1, 'sequence_number', 2 + i)
        if what in ('set_identifier', 'all'):
            p.set_sul(1, 'set_identifier', 'SET-TWO-' + rand_name(rng, 5))
        if what in ('max_record_length', 'all'):
            p.set_sul(1, 'max_record_length', [128, 64, 1024, 512][i % 4])
        p.write(1, fname='unit2.dlis')
        progs.append(p.build())
    return progs


def gen_invalid_vrl(pid, tier, rng):
    """Record lengths the writer must not accept (the trace spec only requires: no malformed file)."""
    progs = []
    for i, vrl in enumerate([18, 19, 21, 33, 16385, 16386]):
        p = Prog(f'{pid}-badvrl-{vrl}', {'kind': 'badvrl'})
        p.low(vrl, [rec(True, 3, 30)])
        progs.append(p.build())
    return progs


def gen_small_files(pid, tier, rng, n=None):
    """A pool of valid files written through the public API, with varied shapes and record lengths."""
    progs = []
    n = n or (12 if tier == 'quick' else 80)
    for i in range(n):
        p = Prog(f'{pid}-file-{i}', {'kind': 'file'})
        vrl = rng.choice([20, 32, 64, 128, 256, 8192])
        simple_file(p, rng, vrl=vrl, nchan=rng.randint(1, 4), rows=rng.randint(1, 6), lfs=rng.choice([1, 1, 2]),
                    widths=rng.choice([None, [None, 3], [2], [None, 1, 5]]),
                    index_type=rng.choice([None, EN('FrameIndexType', 'BOREHOLE_DEPTH'), S('TIME')]),
                    origin_first=rng.random() < 0.7, extra_objects=rng.random() < 0.5)
        p.write(1, in_chunk=rng.choice([None, 1, 2, 100]), out_chunk=rng.choice([vrl, vrl + 2, 4096, 65536]) if vrl <= 4096 else 65536)
        progs.append(p.build())
    return progs


def gen_C01(tier, seed):
    rng = rng_for('C01', tier, seed)
    return (gen_framing_grid('C01', tier, rng) + gen_labels('C01', tier, rng) + gen_bad_label_numbers('C01') + gen_label_rewrite('C01', tier, rng) + gen_invalid_vrl('C01', tier, rng)
            + gen_small_files('C01', tier, rng))


def gen_C02(tier, seed):
    rng = rng_for('C02', tier, seed)
    progs = gen_multirec('C02', tier, rng) + gen_framing_grid('C02', tier, rng, small_only=True)
    # record-type cache (LRMeta): records of different classes in one process, in different orders
    for i in range(6 if tier == 'quick' else 30):
        p = Prog(f'C02-classes-{i}', {'kind': 'classes'})
        simple_file(p, rng, vrl=rng.choice([32, 64, 128]), nchan=2, rows=3, lfs=rng.choice([1, 2]), extra_objects=True,
                    origin_first=(i % 2 == 0))
        p.write(1)
        if i % 2:
            p.write(1, out_chunk=8192)
        progs.append(p.build())
    # the target path already holds a file: a longer one / a shorter one written earlier by this process, or foreign bytes
    for i in range(6 if tier == 'quick' else 24):
        p = Prog(f'C02-samepath-{i}', {'kind': 'samepath'})
        vrl = [256, 64, 8192][i % 3]
        rows = [(30, 4), (2, 17), (5, 5)][i % 3]
        for fid in (1, 2):
            p.file(fid, vrl=vrl)
            lf = p.lf(fid, lf=fid, fh_id=f'EXPORT-{fid}')
            p.origin(lf, name='O')
            c = p.channel(lf, 'DEPTH', data=np.arange(rows[fid - 1], dtype='float64') + 100 * fid)
            p.frame(lf, 'FR', [c])
            if fid == 2 or i >= 3:
                nf = p.add(lf, 'no_format', 'NF')
                p.nofmt(lf, nf, bytes(range(40 + i)))
            p.write(fid, fname='export.dlis', out_chunk=[65536, 1000][i % 2], **({'prior': 333} if fid == 1 and i % 2 else {}))
        p.write(1, fname='export.dlis', out_chunk=65536)
        progs.append(p.build())
    return progs


def gen_C15(tier, seed):
    rng = rng_for('C15', tier, seed)
    progs = []
    vrls = list(range(20, 34, 2)) + [64, 8192, 16384] if tier == 'quick' else list(range(20, 66, 2)) + [128, 1024, 8192, 16382, 16384]
    for vrl in vrls:
        for Ln in sorted(set(list(range(0, 30)) + [vrl - 9, vrl - 8, vrl - 7, 2 * (vrl - 8) + 1, 5 * (vrl - 8) + 3])):
            e, t = RTYPES[(vrl + Ln) % 5]
            p = Prog(f'C15-size-{vrl}-{Ln}', {'kind': 'size', 'vrl': vrl, 'L': Ln})
            p.low(vrl, [rec(e, t, Ln)], out_chunk=max(vrl, 4096))
            progs.append(p.build())
    # size-minimal valid specifications through the public API
    k = 0
    for vrl in ([20, 24, 30, 32, 64, 8192] if tier == 'quick' else list(range(20, 42, 2)) + [64, 128, 8192, 16384]):
        for fname_len in ([1, 2, 3, 5, 8, 9, 10] if tier == 'quick' else list(range(1, 14)) + [64, 127, 128, 255]):
            k += 1
            p = Prog(f'C15-frame-{vrl}-{fname_len}', {'kind': 'tinyframe', 'vrl': vrl, 'name_len': fname_len})
            p.file(1, vrl=vrl)
            lf = p.lf(1, fh_id='H')
            p.origin(lf, name='O')
            c = p.channel(lf, 'A', data=np.array([1, 2, 250], dtype='uint8'))
            p.frame(lf, 'F' * fname_len, [c])
            p.write(1, out_chunk=max(vrl, 1024))
            progs.append(p.build())
        for plen in ([0, 1, 2, 3, 7, 8, 9] if tier == 'quick' else list(range(0, 14))):
            p = Prog(f'C15-nofmt-{vrl}-{plen}', {'kind': 'tinynofmt', 'vrl': vrl, 'payload_len': plen})
            p.file(1, vrl=vrl)
            lf = p.lf(1, fh_id='H')
            p.origin(lf, name='O')
            c = p.channel(lf, 'CHANNEL-A', data=np.arange(3, dtype='float64'))
            p.frame(lf, 'FRAME-A', [c])
            nf = p.add(lf, 'no_format', 'N')
            p.nofmt(lf, nf, bytes(rng.getrandbits(8) for _ in range(plen)))
            p.write(1, out_chunk=max(vrl, 1024))
            progs.append(p.build())
    # many logical files / sets with few objects and few rows: the number of records written exceeds the number of objects
    for nlf in ([1, 2, 3, 5, 8] if tier == 'quick' else list(range(1, 13))):
        for rows in (1, 2, 3):
            p = Prog(f'C15-manylf-{nlf}-{rows}', {'kind': 'manylf', 'nlf': nlf, 'rows': rows})
            p.file(1, vrl=rng.choice([64, 8192]))
            for k in range(nlf):
                lf = p.lf(1, fh_id=f'LF-{k}', fh_seq=k + 1)
                sn = f'SET-{k}'
                p.origin(lf, name='O', fsn=k + 1, set_name=sn)
                c = p.channel(lf, 'A', data=np.arange(rows, dtype='float64') + k, set_name=sn)
                p.frame(lf, 'F', [c], set_name=sn)
                if k % 2:
                    p.add(lf, 'zone', 'Z', set_name=sn)
                    p.add(lf, 'comment', 'C', set_name=sn, text=L(S('x')))
            p.write(1)
            progs.append(p.build())
    # several files in one process with different maximum record lengths (descending, ascending, back to the first): every
    # accepted length can be written with, whatever was written before (C15: "records of any body length ... every maximum
    # record length"); the 'size' kind lets the C01/C02 clauses count as well
    seqs = [[8192, 64, 20, 130, 8192], [20, 8192, 22], [16384, 8192, 1024, 128, 32], [64, 64, 32, 64], [256, 26, 256, 24]]
    for i, vrls in enumerate(seqs if tier == 'thorough' else seqs[:3]):
        p = Prog(f'C15-lengths-{i}', {'kind': 'size', 'variant': 'lengths-in-one-process', 'vrls': vrls})
        for fid, vrl in enumerate(vrls, start=1):
            simple_file(p, rng, fid=fid, vrl=vrl, nchan=2, rows=3, widths=[None, 9], extra_objects=True, fh_id='SAME-HEADER')
            p.write(fid, fname=f'f{fid}.dlis', out_chunk=max(vrl, 4096))
        progs.append(p.build())
    # rows wider than the output chunk (the smallest accepted one: the record length), input chunk size not given
    for i, (vrl, width, dt) in enumerate([(64, 9, 'float64'), (64, 70, 'uint8'), (128, 40, 'float32'), (8192, 1100, 'float64'), (20, 4, 'float64')]):
        p = Prog(f'C15-widerow-{i}', {'kind': 'size', 'variant': 'row wider than the output chunk'})
        p.file(1, vrl=vrl)
        lf = p.lf(1, fh_id='WIDE-ROWS')
        p.origin(lf, name='O')
        a = p.channel(lf, 'IMG', data=rand_array(rng, dt, 3, width))
        b = p.channel(lf, 'IX', data=np.arange(3, dtype='float64'))
        p.frame(lf, 'FR', [b, a])
        p.write(1, out_chunk=vrl, fname='min-chunk.dlis')
        p.write(1, out_chunk=vrl + 2, in_chunk=None, fname='next-chunk.dlis')
        progs.append(p.build())
    return progs


def gen_C16(tier, seed):
    rng = rng_for('C16', tier, seed)
    progs = []
    k = 0
    for vrl in ([64, 8192] if tier == 'quick' else [20, 32, 64, 256, 8192]):
        cap = vrl - 8
        lens = [0, 1, 2, 7, 8, 9, 10, 11, 12, 13, cap - 1, cap, cap + 1] + ([3 * cap + 5] if vrl <= 256 else [300])
        reps = 3 if tier == 'quick' else 10
        for r_ in range(reps):
            for kind in ('bytes', 'bytearray', 'str'):
                k += 1
                p = Prog(f'C16-{vrl}-{kind}-{r_}', {'kind': 'nofmt', 'vrl': vrl})
                p.file(1, vrl=vrl)
                lf = p.lf(1, fh_id='NOFMT-TEST')
                p.origin(lf, name='O')
                c = p.channel(lf, 'CHANNEL-A', data=np.arange(3, dtype='float64'))
                p.frame(lf, 'FRAME-A', [c])
                nobj = rng.randint(1, 3)
                nfs = [p.add(lf, 'no_format', f'NF{j}' if j else 'N', consumer_name=S('SOMEONE')) for j in range(nobj)]
                for _ in range(rng.randint(1, 5)):
                    n = rng.choice(lens)
                    if kind == 'str':
                        pl = bytes(rng.randint(0, 127) for _ in range(n))
                    else:
                        pl = bytes(rng.getrandbits(8) for _ in range(n))
                    p.nofmt(lf, rng.choice(nfs), pl, kind=kind)
                p.write(1, out_chunk=max(vrl, 1024))
                progs.append(p.build())
    # NO-FORMAT objects in several (named) sets, payloads added alternately: the records keep the order of the calls
    for i in range(3 if tier == 'quick' else 12):
        p = Prog(f'C16-sets-{i}', {'kind': 'nofmt-sets'})
        p.file(1, vrl=[64, 8192, 128][i % 3])
        lf = p.lf(1, fh_id='NOFMT-SETS')
        p.origin(lf, name='O')
        c = p.channel(lf, 'CHANNEL-A', data=np.arange(3, dtype='float64'))
        p.frame(lf, 'FRAME-A', [c])
        nfs = [p.add(lf, 'no_format', 'A', set_name='SET-A'), p.add(lf, 'no_format', 'B', set_name='SET-B'), p.add(lf, 'no_format', 'C'),
               p.add(lf, 'no_format', 'A2', set_name='SET-A')]
        for j in range(8):
            p.nofmt(lf, nfs[[0, 1, 2, 0, 3, 1, 0, 2][(j + i) % 8]], bytes([65 + j]) * (3 + 5 * j))
        p.write(1, out_chunk=8192)
        progs.append(p.build())
    # payloads replaced after the record was added (before the first write, between two writes), bytearrays changed in place
    for i in range(6 if tier == 'quick' else 40):
        p = Prog(f'C16-replace-{i}', {'kind': 'nofmt-replace'})
        p.file(1, vrl=[64, 8192][i % 2])
        lf = p.lf(1, fh_id='NOFMT-REPLACE')
        p.origin(lf, name='O')
        c = p.channel(lf, 'CHANNEL-A', data=np.arange(3, dtype='float64'))
        p.frame(lf, 'FRAME-A', [c])
        nf = p.add(lf, 'no_format', 'N', consumer_name=S('SOMEONE'))
        kinds = ['bytes', 'str', 'bytearray']
        for j in range(3):
            p.nofmt(lf, nf, bytes(rng.randint(0, 127) for _ in range(rng.choice([0, 5, 13, 70]))), kind=kinds[(i + j) % 3])
        if i % 3 != 1:
            p.nofmt_replace(1 + i % 3, bytes(rng.randint(0, 127) for _ in range(rng.choice([1, 9, 12, 200]))), kind=kinds[i % 3])
        p.write(1, fname='first.dlis', out_chunk=8192)
        p.nofmt_replace(2, bytes(rng.randint(0, 127) for _ in range(rng.choice([0, 3, 11, 57]))), kind=kinds[(i + 1) % 3])
        if i % 2:
            p.nofmt_replace(3, b'', kind='bytes')
        p.write(1, fname='second.dlis', out_chunk=8192)
        progs.append(p.build())
    # non-ASCII text payload: must not be written unfaithfully
    p = Prog('C16-nonascii', {'kind': 'nofmt-nonascii'})
    p.file(1, vrl=64)
    lf = p.lf(1, fh_id='X')
    p.origin(lf, name='O')
    c = p.channel(lf, 'CHANNEL-A', data=np.arange(3, dtype='float64'))
    p.frame(lf, 'FRAME-A', [c])
    nf = p.add(lf, 'no_format', 'N')
    p.nofmt(lf, nf, bytes([65, 200, 66]), kind='str')
    p.write(1, valid=False, either=True)
    progs.append(p.build())
    return progs


# ----------------------------------------------------------------------------------------------------------------------
# C10: chunk sizes invisible, file grows by whole records
# ----------------------------------------------------------------------------------------------------------------------
def gen_C10(tier, seed):
    rng = rng_for('C10', tier, seed)
    progs = []
    nspec = 6 if tier == 'quick' else 40
    for i in range(nspec):
        vrl = rng.choice([32, 64, 128, 200])
        rows = rng.choice([1, 4, 6, 7])
        p = Prog(f'C10-spec-{i}', {'kind': 'chunks', 'vrl': vrl, 'rows': rows})
        simple_file(p, rng, vrl=vrl, nchan=rng.randint(1, 3), rows=rows, widths=rng.choice([None, [None, 3]]),
                    extra_objects=(i % 2 == 0))
        in_chunks = [None, 1, 2, 3, rows, rows + 1]
        p.write(1, in_chunk=None, out_chunk=65536, watch=True, prior=rng.choice([None, 0, 50, 100000]))
        outs = [vrl, vrl + 2, vrl + 30, 2 * vrl + 6, 1000, 4096]
        for j, ic in enumerate(in_chunks):
            oc = outs[(i + j) % len(outs)]
            st = p.write(1, in_chunk=ic, out_chunk=oc, watch=True, prior=[None, 3000, 10][j % 3], fname=f'o{j}.dlis')
            if j % 3 == 2:
                st['opts']['out_chunk_float'] = True
        progs.append(p.build())
    for i in range(8 if tier == 'quick' else 60):
        rows = rng.choice([7, 10, 13])
        route = ['struct', 'dict', 'h5', 'struct'][i % 4]
        p = Prog(f'C10-routechunks-{i}', {'kind': 'routechunks', 'route': route, 'rows': rows})
        p.file(1, vrl=rng.choice([64, 256]))
        lf = p.lf(1, fh_id='CHUNKS')
        p.origin(lf, name='O')
        chans, arrs = [], {}
        for c in range(rng.randint(1, 3)):
            ch = p.channel(lf, f'CH{c}')
            chans.append(ch)
            arrs[ch] = p.array(rand_array(rng, rng.choice(['float64', 'int16', 'float32']), rows, rng.choice([None, 2])))
        p.frame(lf, 'FR', chans)
        frm = rng.choice([0, 1, 3])
        to = rng.choice([None, rows - 1])
        for j, ic in enumerate([None, 1, 2, 3, 4, rows, rows + 1, 100]):
            opts = {'in_chunk': ic}
            if frm:
                opts['from'] = frm
            if to is not None:
                opts['to'] = to
            p.write(1, route=route, data_arrays=arrs, fname=f'o{j}.dlis', **opts)
        progs.append(p.build())
    # a write aborted in the middle of the record stream (a text payload that is not ASCII), the payload corrected, then the same
    # specification written with the same and with other output chunk sizes, also by another DLISFile of the process
    for i in range(6 if tier == 'quick' else 24):
        vrl = [64, 256, 8192][i % 3]
        p = Prog(f'C10-afterabort-{i}', {'kind': 'afterabort', 'vrl': vrl})
        oc = [65536, 4096, 65536, 1000, 16384, 65536][i % 6]
        for fid in ((1,) if i % 2 == 0 else (1, 2)):
            p.file(fid, vrl=vrl)
            lf = p.lf(fid, lf=fid, fh_id='ABORTED-THEN-RETRIED')
            p.origin(lf, name='O')
            c = p.channel(lf, 'CHANNEL-A', data=np.arange(5, dtype='float64'))
            p.frame(lf, 'FRAME-A', [c])
            nf = p.add(lf, 'no_format', 'NF', consumer_name=S('SOMEONE'))
            p.nofmt(lf, nf, b'plain text, long enough to fill a visible record of sixty-four bytes', kind='str')
            p.nofmt(lf, nf, 'caf\xe9 au lait' if fid == 1 else 'cafe au lait', kind='str')
            if fid == 1:
                p.write(1, out_chunk=oc, valid=False, either=True, fname='aborted.dlis')
                if i % 2 == 0:
                    p.nofmt_replace(2, 'cafe au lait', kind='str')
        last = 1 if i % 2 == 0 else 2
        p.write(last, out_chunk=oc, fname='retry.dlis', watch=True)
        for j, o2 in enumerate([131072, 8192 if vrl <= 8192 else 16384, float(oc)]):
            st = p.write(last, out_chunk=int(o2), fname=f'other{j}.dlis', watch=True)
            if j == 2:
                st['opts']['out_chunk_float'] = True
        progs.append(p.build())
    # chunk sizes and window starts no row count can be cut by (negative, zero): refused - or, if accepted, invisible like any other
    for i, (route, bad) in enumerate([(r, b) for r in ('struct', 'dict', 'h5', 'none') for b in ({'in_chunk': -3}, {'in_chunk': -1}, {'in_chunk': 0}, {'from': -3}, {'from': -10})]):
        p = Prog(f'C10-badchunk-{route}-{i}', {'kind': 'badchunk', 'route': route})
        p.file(1, vrl=256)
        lf = p.lf(1, fh_id='BAD-CHUNKS')
        p.origin(lf, name='O')
        rows = 10
        arrs = {}
        chans = []
        for c in range(2):
            a = rand_array(rng, ['float64', 'int32'][c], rows, None)
            ch = p.channel(lf, f'CH{c}', data=a if route == 'none' else None)
            chans.append(ch)
            if route != 'none':
                arrs[ch] = p.array(a)
        p.frame(lf, 'FR', chans)
        kw = {'route': route, 'data_arrays': arrs} if route != 'none' else {}
        p.write(1, fname='plain.dlis', **kw)
        for j, ic in enumerate([None, 2, 3]):
            opts = dict(bad)
            if 'in_chunk' not in opts:
                opts['in_chunk'] = ic
            elif j:
                continue
            p.write(1, fname=f'bad{j}.dlis', valid=False, either=True, **kw, **opts)
        progs.append(p.build())
    progs += gen_multirec('C10', tier, rng)
    return progs


# ----------------------------------------------------------------------------------------------------------------------
# C06: primitive encodings
# ----------------------------------------------------------------------------------------------------------------------
def _int_case(code, v):
    return {'code': code, 'py': I(v), 'abs': {'k': 'int', 'v': slimbs(v)}}


def _str_case(code, s):
    return {'code': code, 'py': S(s), 'abs': {'k': 'str', 's': [ord(c) for c in s]}}


def gen_C06(tier, seed):
    rng = rng_for('C06', tier, seed)
    cases = []
    ranges = {15: (0, 255), 16: (0, 65535), 17: (0, 2 ** 32 - 1), 12: (-128, 127), 13: (-32768, 32767),
              14: (-2 ** 31, 2 ** 31 - 1), 18: (0, 2 ** 30 - 1), 26: (0, 1)}
    for code, (lo, hi) in ranges.items():
        vals = set()
        for e in (lo, hi):
            vals.update(range(e - 3, e + 4))
        for k in range(0, 34):
            for d in (-1, 0, 1):
                vals.update([2 ** k + d, -(2 ** k) + d])
        vals.update([0, 1, -1])
        if code == 18:
            vals.update(range(0, 300 if tier == 'quick' else 16500))
            vals.update(range(16370, 16400))
            vals.update(range(2 ** 30 - 20, 2 ** 30 + 6))
        nrand = 50 if tier == 'quick' else 3000
        for _ in range(nrand):
            vals.add(rng.randint(lo, hi))
            vals.add(rng.randint(lo - 10 ** 6, hi + 10 ** 6))
        for v in sorted(vals):
            if abs(v) < 2 ** 34:
                cases.append(_int_case(code, v))
    # floats: bit patterns
    pats64 = ['0000000000000000', '8000000000000000', '7ff0000000000000', 'fff0000000000000', '7ff8000000000001',
              '7ff4000000000000', '0000000000000001', '3ff0000000000000', 'c00921fb54442d18', '7fefffffffffffff']
    for _ in range(20 if tier == 'quick' else 500):
        pats64.append('%016x' % rng.getrandbits(64))
    for h in pats64:
        cases.append({'code': 7, 'py': FB(h), 'abs': {'k': 'bits', 'b': list(bytes.fromhex(h))}})
    for h in ['00000000', '80000000', '7f800000', 'ff800000', '3f800000', '00000001', '7f7fffff', '40490fdb'] + \
             ['%08x' % rng.getrandbits(32) for _ in range(20 if tier == 'quick' else 500)]:
        x = struct.unpack('>f', bytes.fromhex(h))[0]
        if x != x:
            continue       # a NaN payload does not survive the float32 -> Python float -> float32 round trip by design
        cases.append({'code': 2, 'py': F(x), 'abs': {'k': 'bits', 'b': list(bytes.fromhex(h))}})
    # strings
    lens = [0, 1, 2, 126, 127, 128, 129, 254, 255, 256, 257, 300] if tier == 'quick' else list(range(0, 301))
    for n in lens:
        s = ''.join(chr(rng.randint(32, 126)) for _ in range(n))
        cases.append(_str_case(19, s))
        cases.append(_str_case(27, s))
        cases.append(_str_case(20, s))
    for n in [16383, 16384, 16385, 20000]:
        cases.append(_str_case(20, 'x' * n))
    for s in ['café', 'Ω', 'a\u0080', '€' * 3]:
        for code in (19, 20, 27):
            cases.append(_str_case(code, s))
    # date-times
    years = [1899, 1900, 1901, 1987, 2000, 2024, 2155, 2156] if tier == 'quick' else [1899, 1900, 1901, 1950, 1987, 1999, 2000, 2024, 2100, 2154, 2155, 2156, 2200]
    uss = [0, 1, 499, 500, 501, 999, 1000, 1499, 1500, 2500, 998499, 998500, 999499, 999500, 999999]
    for y in years:
        for (mo, d) in [(1, 1), (2, 28), (12, 31), (6, 30)] + ([(2, 29)] if y % 4 == 0 and y not in (1900, 2100, 2200) else []):
            for (h, mi, s) in [(0, 0, 0), (23, 59, 59)]:
                for us in (uss if (mo, d, h) == (1, 1, 0) else rng.sample(uss, 3)):
                    for tzmin in [0, 330, -660]:
                        if y in (1899, 1900, 2155, 2156) and tzmin != 0:
                            continue
                        py = DT(y, mo, d, h, mi, s, us, tzmin=tzmin)
                        import datetime as _dt
                        try:
                            u = _dt.datetime(y, mo, d, h, mi, s, us, tzinfo=_dt.timezone(_dt.timedelta(minutes=tzmin))).astimezone(_dt.timezone.utc)
                        except (OverflowError, ValueError):
                            continue
                        cases.append({'code': 21, 'py': py,
                                      'abs': {'k': 'dt', 'y': u.year, 'mo': u.month, 'd': u.day, 'h': u.hour,
                                              'mi': u.minute, 's': u.second, 'us': u.microsecond}})
    # the two readings of a wall-clock time that occurs twice (end of daylight saving time): equal and of equal hash in Python,
    # an hour apart in UTC - each is written as its own instant, in whatever order they come
    foldcases = []
    import zoneinfo
    for zone, (y, mo, d, h, mi) in [('Europe/Berlin', (2023, 10, 29, 2, 30)), ('Europe/London', (2021, 10, 31, 1, 30)),
                                    ('America/New_York', (2022, 11, 6, 1, 15))]:
        for fold in (0, 1, 0):
            import datetime as _dt
            u = _dt.datetime(y, mo, d, h, mi, 7, tzinfo=zoneinfo.ZoneInfo(zone), fold=fold).astimezone(_dt.timezone.utc)
            py = DT(y, mo, d, h, mi, 7)
            py['zone'], py['fold'] = zone, fold
            foldcases.append({'code': 21, 'py': py, 'abs': {'k': 'dt', 'y': u.year, 'mo': u.month, 'd': u.day, 'h': u.hour,
                                                            'mi': u.minute, 's': u.second, 'us': u.microsecond}})
    # object names / references
    for origin in [0, 1, 127, 128, 16383, 16384, 2 ** 30 - 1, 2 ** 30]:
        for copy in [0, 1, 127, 128, 200, 255, 256]:
            for nlen in [0, 1, 127, 128, 255, 256]:
                if tier == 'quick' and rng.random() < 0.5:
                    continue
                name = 'N' * nlen
                for code, typ in ((23, ''), (24, 'CHANNEL'), (24, 'T' * 200)):
                    if code == 24 and rng.random() < 0.6:
                        continue
                    py = {'t': 'obname', 'origin': origin, 'copy': copy, 'name': name, 'type': typ}
                    ab = {'k': 'obname', 'origin': slimbs(origin), 'copy': slimbs(copy), 'name': [78] * nlen,
                          'type': [ord(c) for c in typ]}
                    cases.append({'code': code, 'py': py, 'abs': ab})
    rng.shuffle(cases)
    # cache-collision orders: equal-hash keys of different type next to each other
    coll = []
    for code in (15, 14, 7, 20, 19):
        for v in ([I(1), F(1.0), BOOL(True), I(0), F(0.0), BOOL(False), FB('8000000000000000')]):
            ab = {'k': 'other'}
            if v['t'] == 'int' and code in (15, 14):
                ab = {'k': 'int', 'v': slimbs(v['v'])}
            if v['t'] == 'float' and code == 7:
                ab = {'k': 'bits', 'b': list(bytes.fromhex(v['bits']))}
            coll.append({'code': code, 'py': v, 'abs': ab})
    progs = []
    per = 400
    for i in range(0, len(cases), per):
        p = Prog(f'C06-enc-{i // per}', {'kind': 'encode'})
        p.steps.append({'op': 'encode', 'cases': cases[i:i + per]})
        progs.append(p.build())
    for i in range(4):
        c2 = coll[:]
        rng.shuffle(c2)
        p = Prog(f'C06-collide-{i}', {'kind': 'encode-collide'})
        p.steps.append({'op': 'encode', 'cases': c2 + cases[i * 50:(i + 1) * 50] + c2 + (foldcases if i % 2 == 0 else foldcases[::-1])})
        progs.append(p.build())
    # IDENT fields the writer fills itself (set names, object names, labels) at the UVARI / USHORT thresholds, seen in files:
    # an IDENT has a one-byte length, 256 characters cannot be represented
    for n in (1, 127, 128, 200, 255, 256):
        p = Prog(f'C06-identfile-{n}', {'kind': 'identfile', 'n': n, 'fringe': n > 255})
        p.file(1, vrl=8192)
        lf = p.lf(1, fh_id='IDENT-LENGTHS')
        nm = ''.join('ABCDEFGHIJ'[k % 10] for k in range(n))
        p.origin(lf, name='O', set_name=nm)
        c = p.channel(lf, nm[:255], data=np.arange(3, dtype='float64'), set_name=nm)
        p.frame(lf, 'FR', [c], set_name=nm)
        p.add(lf, 'zone', nm[:255], set_name=nm)
        p.write(1, valid=n <= 255, either=n > 255, mustraise='ident' if n > 255 else '')
        progs.append(p.build())
    # the codes of frame-data samples (USHORT ... FDOUBL): range edges of every dtype written under the code the CHANNEL object
    # declares; the same channels written again with data of another dtype (every ordered pair over the eight dtypes in thorough)
    dts = ['int8', 'int16', 'int32', 'uint8', 'uint16', 'uint32', 'float32', 'float64']
    pairs = [(a, b) for a in dts for b in dts if a != b]
    if tier == 'quick':
        pairs = [pairs[k] for k in range(0, len(pairs), 4)] + [('float64', 'float32'), ('int32', 'uint16')]

    def edge_values(dt, n=6):
        if dt.startswith('float'):
            fi = np.finfo(dt)
            return np.array([0.0, -0.0, fi.max, fi.tiny, -1.5, 3.0], dtype=dt)[:n]
        ii = np.iinfo(dt)
        return np.array([ii.min, ii.max, 0, 1, ii.max - 1, ii.min + 1 if ii.min else 250], dtype=dt)[:n]
    for i, (a, b) in enumerate(pairs):
        p = Prog(f'C06-samplecodes-{a}-{b}', {'kind': 'samplecodes', 'first': a, 'second': b})
        p.file(1, vrl=256)
        lf = p.lf(1, fh_id='SAMPLE-CODES')
        p.origin(lf, name='O')
        d = p.channel(lf, 'DEPTH')
        x = p.channel(lf, 'X')
        k2 = p.channel(lf, 'K')
        p.frame(lf, 'FR', [d, x, k2])
        depth = p.array(np.arange(6, dtype='float64'))
        p.write(1, route='dict', data_arrays={d: depth, x: p.array(edge_values(a)), k2: p.array(np.stack([edge_values(a), edge_values(a)], axis=1))}, fname='first.dlis')
        p.write(1, route='dict', data_arrays={d: depth, x: p.array(edge_values(b)), k2: p.array(np.stack([edge_values(b), edge_values(b)], axis=1))}, fname='second.dlis')
        if i % 3 == 0:
            p.write(1, route='dict', data_arrays={d: depth, x: p.array(edge_values(a)), k2: p.array(np.stack([edge_values(a), edge_values(a)], axis=1))}, fname='third.dlis')
        progs.append(p.build())
    return progs


GENERATORS = {'C01': gen_C01, 'C02': gen_C02, 'C06': gen_C06, 'C10': gen_C10, 'C15': gen_C15, 'C16': gen_C16}
