"""Program builder: a small DSL to write scenarios (programs for driver.py) compactly."""
import struct

import numpy as np


def I(v):
    return {'t': 'int', 'v': int(v)}


def F(x):
    return {'t': 'float', 'bits': struct.pack('>d', float(x)).hex()}


def NP(dtype, v):
    """A numpy scalar of the given dtype."""
    return {'t': 'np', 'dtype': dtype, 'v': v}


def FB(hexbits):
    return {'t': 'float', 'bits': hexbits}


def S(s):
    return {'t': 'str', 'v': s}


def BOOL(b):
    return {'t': 'bool', 'v': bool(b)}


def DT(y, mo, d, h=0, mi=0, s=0, us=0, tzmin=0):
    return {'t': 'dt', 'y': y, 'mo': mo, 'd': d, 'h': h, 'mi': mi, 's': s, 'us': us, 'tzmin': tzmin}


def R(ref):
    return {'t': 'ref', 'obj': ref}


def L(*xs):
    return {'t': 'list', 'v': list(xs)}


def TUP(*xs):
    return {'t': 'tuple', 'v': list(xs)}


def ARR(dtype, *xs, nested=False):
    """The values as a numpy array of the given dtype (nested: xs are L(...) rows)."""
    return {'t': 'ndarray', 'dtype': dtype, 'v': list(xs), 'nested': nested}


def EN(enum, member):
    return {'t': 'enum', 'enum': enum, 'member': member}


def SETUP(value=None, units=None):
    return {'t': 'setup', 'value': value, 'units': units}


def DICT(value=None, units=None):
    return {'t': 'dict', 'value': value, 'units': units}


def SHARED(key, value=None, units=None):
    """A {'value': .., 'units': ..} dict; every use of the same key hands the API the very same dict object."""
    return {'t': 'dict', 'value': value, 'units': units, 'share': key}


def NOJ(v):
    v = dict(v)
    v['nojudge'] = True
    return v


def arrspec(a, layout='C'):
    a = np.asarray(a)
    return {'dtype': a.dtype.str, 'shape': list(a.shape), 'hex': np.ascontiguousarray(a).tobytes().hex(),
            'layout': layout}


class Prog:
    """One program (single process unless procs() is used)."""

    def __init__(self, pid, meta=None):
        self.id = pid
        self.steps = []
        self.arrays = {}
        self.meta = meta or {}
        self._n = 0
        self._frames = {}      # frame ref -> list of channel refs
        self._ch_arr = {}      # channel ref -> array id (inline)
        self._ch_cast = {}     # channel ref -> cast dtype name
        self._ch_ds = {}       # channel ref -> dataset name used at write time
        self._lf_frames = {}   # lf -> [frame refs]
        self._lf_fid = {}
        self._procs = None
        self.tz = None

    # ------------------------------------------------------------------ basic steps
    def ref(self, prefix='o'):
        self._n += 1
        return f'{prefix}{self._n}'

    def array(self, a, layout='C', aid=None):
        aid = aid or f'a{len(self.arrays) + 1}'
        self.arrays[aid] = arrspec(a, layout)
        return aid

    def file(self, fid=1, **kw):
        self.steps.append(dict({'op': 'new_file', 'fid': fid}, **kw))
        return fid

    def lf(self, fid=1, lf=None, **kw):
        lf = lf if lf is not None else (max(self._lf_fid) + 1 if self._lf_fid else 1)
        self._lf_fid[lf] = fid
        self._lf_frames[lf] = []
        self.steps.append(dict({'op': 'add_lf', 'fid': fid, 'lf': lf}, **kw))
        return lf

    def add(self, lf, cls, name, ref=None, set_name=None, origin_reference=None, rawkw=None, **kw):
        ref = ref or self.ref(cls[0])
        st = {'op': 'add', 'lf': lf, 'cls': cls, 'ref': ref, 'name': name, 'kw': {k: v for k, v in kw.items() if v is not None}}
        if set_name is not None:
            st['set_name'] = set_name
        if origin_reference is not None:
            st['origin_reference'] = origin_reference
        if rawkw:
            st['rawkw'] = rawkw
        self.steps.append(st)
        return ref

    def origin(self, lf, name='DEFINING-ORIGIN', fsn=1, ctime=True, **kw):
        if fsn is not None:
            kw.setdefault('file_set_number', I(fsn))
        if ctime:
            kw.setdefault('creation_time', DT(2020, 3, 4, 5, 6, 7, 0))
        return self.add(lf, 'origin', name, **kw)

    def channel(self, lf, name, data=None, cast=None, dataset_name=None, layout='C', ref=None, **kw):
        ref = ref or self.ref('c')
        st = {'op': 'add', 'lf': lf, 'cls': 'channel', 'ref': ref, 'name': name,
              'kw': {k: v for k, v in kw.items() if k not in ('set_name', 'origin_reference', 'cast_as_dtype') and v is not None}}
        for k in ('set_name', 'origin_reference'):
            if kw.get(k) is not None:
                st[k] = kw[k]
        if data is not None:
            aid = data if isinstance(data, str) else self.array(data, layout)
            st['data'] = aid
            self._ch_arr[ref] = aid
        if cast is not None:
            st['cast_dtype'] = {'t': 'dtype', 'v': cast}
            if kw.pop('cast_as_dtype', False):
                st['cast_dtype']['as'] = 'dtype'          # a numpy.dtype instance instead of the scalar type
            self._ch_cast[ref] = cast
        if dataset_name is not None:
            st['dataset_name'] = dataset_name
        self._ch_ds[ref] = dataset_name if dataset_name is not None else name
        self.steps.append(st)
        return ref

    def frame(self, lf, name, chans, ref=None, **kw):
        ref = ref or self.ref('f')
        extra = {k: kw.pop(k) for k in ('set_name', 'origin_reference') if k in kw}
        r = self.add(lf, 'frame', name, ref=ref, channels=L(*[R(c) for c in chans]), **kw, **extra)
        self._frames[r] = list(chans)
        self._lf_frames.setdefault(lf, []).append(r)
        return r

    def set(self, obj, attr, val, part='value'):
        self.steps.append({'op': 'set', 'obj': obj, 'attr': attr, 'part': part, 'val': val})

    def extend(self, obj, attr, before, more):
        """In-place extension of a list value: obj.<attr>.value.extend(more); the specification then holds before+more."""
        self.steps.append({'op': 'set', 'obj': obj, 'attr': attr, 'part': 'value', 'val': L(*(list(before) + list(more))),
                           'inplace': list(more)})

    def set_cast(self, ch, dtype):
        """ch.cast_dtype = <numpy type> (None clears it); later writes are expected to cast to it."""
        self.steps.append({'op': 'set', 'obj': ch, 'part': 'cast_dtype', 'val': {'t': 'none'} if dtype is None else {'t': 'dtype', 'v': dtype}})
        if dtype is None:
            self._ch_cast.pop(ch, None)
        else:
            self._ch_cast[ch] = dtype

    def set_origin_ref(self, obj, v):
        self.steps.append({'op': 'set', 'obj': obj, 'part': 'origin_reference', 'v': v})

    def set_sul(self, fid, field, v):
        self.steps.append({'op': 'set_sul', 'fid': fid, 'field': field, 'v': v})

    def mutate_array(self, aid, new):
        """The caller overwrites array `aid` in place (same dtype and shape) with `new`."""
        new = np.ascontiguousarray(np.asarray(new, dtype=np.dtype(self.arrays[aid]['dtype'])))
        self.steps.append({'op': 'mutate_array', 'aid': aid, 'hex': new.tobytes().hex()})

    def set_header(self, lf, field, v):
        self.steps.append({'op': 'set_header', 'lf': lf, 'field': field, 'v': v})

    def rename(self, obj, name):
        self.steps.append({'op': 'set', 'obj': obj, 'part': 'name', 'v': name})

    def nofmt(self, lf, obj, payload, kind='bytes'):
        if isinstance(payload, str):
            payload = payload.encode('latin-1')
        self.steps.append({'op': 'nofmt_data', 'lf': lf, 'obj': obj, 'payload': {'kind': kind, 'hex': bytes(payload).hex()}})

    def nofmt_replace(self, idx, payload, kind='bytes'):
        """Give the idx-th accepted no-format record (1-based, in order of creation in this process) a new payload."""
        if isinstance(payload, str):
            payload = payload.encode('latin-1')
        self.steps.append({'op': 'nofmt_replace', 'idx': idx, 'payload': {'kind': kind, 'hex': bytes(payload).hex()}})

    def hc(self, what='enter'):
        self.steps.append({'op': {'enter': 'hc_enter', 'exit': 'hc_exit', 'exc': 'hc_exit_exc'}[what]})

    # ------------------------------------------------------------------ write
    def write(self, fid=1, route='none', data_arrays=None, frames=None, valid=True, mustraise='', hc_breach='',
              either=False, extras=None, fname=None, watch=False, prior=None, perm=None, same_dict=False, **opts):
        """data_arrays: channel ref -> array id for data given at write time (route dict/struct/h5)."""
        data_arrays = data_arrays or {}
        st = {'op': 'write', 'fid': fid, 'opts': dict(opts), 'valid': valid, 'mustraise': mustraise,
              'hc_breach': hc_breach, 'either': either}
        st['opts'].setdefault('out_chunk', 65536)
        if fname:
            st['fname'] = fname
        if watch:
            st['watch_disk'] = True
        if prior is not None:
            st['prior'] = prior
        if route != 'none':
            m = {self._ch_ds[c]: aid for c, aid in data_arrays.items()}
            if extras:
                m.update(extras)
            if perm:
                keys = list(m)
                m = {keys[i]: m[keys[i]] for i in perm}
            st['data'] = {'route': route, 'map': m}
            if same_dict:
                st['data']['same_dict'] = True
        exp = []
        lfs = [l for l, f in self._lf_fid.items() if f == fid]
        for l in lfs:
            for fr in self._lf_frames.get(l, []):
                if frames is not None and fr not in frames:
                    continue
                chans = []
                for c in self._frames[fr]:
                    aid = data_arrays.get(c, self._ch_arr.get(c))
                    chans.append({'ch': c, 'arr': aid, 'cast': self._ch_cast.get(c)})
                exp.append({'frame': fr, 'chans': chans})
        st['expect'] = exp
        self.steps.append(st)
        return st

    def low(self, vrl, recs, out_chunk=65536, **kw):
        self.steps.append(dict({'op': 'lowwrite', 'vrl': vrl, 'out_chunk': out_chunk, 'recs': recs}, **kw))

    def next_proc(self, fresh=False):
        """Start a new process: the steps so far become one process of the program."""
        if self._procs is None:
            self._procs = []
        self._procs.append({'steps': self.steps, 'fresh': getattr(self, '_cur_fresh', False)})
        self.steps = []
        self._cur_fresh = fresh

    def build(self):
        p = {'id': self.id, 'arrays': self.arrays, 'meta': self.meta}
        if self.tz:
            p['tz'] = self.tz
        if self._procs is not None:
            p['procs'] = self._procs + [{'steps': self.steps, 'fresh': getattr(self, '_cur_fresh', False)}]
            p['steps'] = []
        else:
            p['steps'] = self.steps
        return p
