"""Scenario generators, second group: object model, metadata, data path."""
import os

import numpy as np

from build import ARR, BOOL, DICT, DT, EN, F, I, L, NOJ, NP, R, S, SETUP, SHARED, TUP, Prog
from objgen import ENUM_MEMBERS, ORDER, add_all_classes, ident, make_kwargs, text, value_for, with_units
from objmodel import CLASSES
from scen import DTYPES, rand_array, rand_name, rng_for, simple_file

WIDEN = {'int8': ['int16', 'int32', 'float64'], 'int16': ['int32', 'float64'], 'int32': ['float64'],
         'uint8': ['uint16', 'uint32', 'int16', 'float32'], 'uint16': ['uint32', 'int32', 'float64'], 'uint32': ['float64'],
         'float32': ['float64'], 'float64': []}
NARROW = {'float64': ['float32']}


def base_lf(p, vrl=8192, fid=1, fh_id='TEST-FILE', origin_name='ORIGIN'):
    p.file(fid, vrl=vrl)
    lf = p.lf(fid, fh_id=fh_id)
    o = p.origin(lf, name=origin_name)
    return lf, o


# ----------------------------------------------------------------------------------------------------------------------
# C03 / C08 / C19: channel data
# ----------------------------------------------------------------------------------------------------------------------
def data_scenario(pid, i, rng, tier, route=None, window=False, fail=False):
    p = Prog(f'{pid}-data-{i}', {'kind': 'data'})
    vrl = rng.choice([64, 128, 8192])
    lf, _ = base_lf(p, vrl=vrl)
    rows = rng.choice([1, 2, 5, 7])
    nch = rng.randint(1, 4)
    route = route or rng.choice(['inline', 'inline', 'dict', 'struct', 'h5'])
    chans, arrs = [], {}
    for c in range(nch):
        dt = rng.choice(DTYPES)
        order = rng.choice(['<', '>']) if np.dtype(dt).itemsize > 1 else '|'
        width = rng.choice([None, None, 1, 3, 70 if vrl == 64 else 9])
        a = rand_array(rng, dt, rows, width, special=True).astype(np.dtype(dt).newbyteorder(order))
        layout = rng.choice(['C', 'C', 'F', 'strided', 'readonly', 'view']) if route in ('inline', 'dict') else 'C'
        cast = None
        r = rng.random()
        if r < 0.2 and WIDEN[dt]:
            cast = rng.choice(WIDEN[dt])
        elif r < 0.25 and dt in NARROW:
            cast = NARROW[dt][0]
        aid = p.array(a, layout)
        name = f'CHAN{c + 1}'
        if route == 'inline':
            ch = p.channel(lf, name, data=aid, cast=cast)
        else:
            ds = rng.choice([None, f'dset/{name}' if route == 'h5' else f'ds_{c}'])
            ch = p.channel(lf, name, cast=cast, dataset_name=ds)
            arrs[ch] = aid
        chans.append(ch)
    p.frame(lf, 'MAIN-FRAME', chans)
    opts = {'in_chunk': rng.choice([None, 1, 2, rows, rows + 1])}
    if window and rows > 1:
        a_ = rng.randint(0, rows - 1)
        b_ = rng.randint(a_ + 1, rows)
        opts['from'] = a_
        if rng.random() < 0.8:
            opts['to'] = b_
    p.write(1, route='none' if route == 'inline' else route, data_arrays=arrs, out_chunk=rng.choice([vrl, max(vrl, 4096), 65536]), **opts)
    return p


def narrowcast_programs(pid, rng):
    """Integer data cast to a narrower integer type with values outside its range (numpy wraps them: that is the declared
    cast, whatever the source kind), written from every source kind; the files are equal."""
    progs = []
    combos = [('int32', 'int16'), ('int32', 'uint8'), ('uint32', 'int8'), ('int16', 'uint8'), ('uint16', 'int8'), ('int32', 'uint16')]
    for i, (src, cast) in enumerate(combos):
        p = Prog(f'{pid}-narrowcast-{i}', {'kind': 'narrowcast', 'src': src, 'cast': cast})
        info = np.iinfo(src)
        vals = np.array([1, 2, 70000 % (info.max + 1), info.max, info.min if info.min else 40000 % (info.max + 1), 300, 129, 255], dtype=src)
        a2 = np.stack([vals, vals[::-1]], axis=1)
        ixd = np.arange(len(vals), dtype='float64')
        for fid, route in enumerate(['h5', 'dict', 'struct', 'inline'], start=1):
            p.file(fid, vrl=256)
            lf = p.lf(fid, lf=fid, fh_id='NARROW')
            p.origin(lf, name='O')
            if route == 'inline':
                ix, c1, c2 = p.channel(lf, 'IX', data=ixd), p.channel(lf, 'S', data=vals, cast=cast), p.channel(lf, 'M', data=a2, cast=cast)
                arrs = {}
            else:
                ix, c1, c2 = p.channel(lf, 'IX'), p.channel(lf, 'S', cast=cast), p.channel(lf, 'M', cast=cast)
                arrs = {ix: p.array(ixd), c1: p.array(vals), c2: p.array(a2)}
            p.frame(lf, 'FR', [ix, c1, c2])
            p.write(fid, route='none' if route == 'inline' else route, data_arrays=arrs, fname=f'o{fid}.dlis', in_chunk=[None, 3][i % 2],
                    **({'from': 1, 'to': 7} if i % 3 == 2 else {}))
        progs.append(p.build())
    return progs


def gen_C03(tier, seed):
    rng = rng_for('C03', tier, seed)
    n = 120 if tier == 'quick' else 2500
    progs = [data_scenario('C03', i, rng, tier).build() for i in range(n)]
    # the same arrays serialised more than once: written twice, or feeding two logical files
    for i in range(16 if tier == 'quick' else 120):
        route = ['struct', 'dict', 'inline', 'struct'][i % 4]
        p = Prog(f'C03-twice-{i}', {'kind': 'twice', 'route': route})
        p.file(1, vrl=rng.choice([64, 8192]))
        nlf = 2 if i % 2 else 1
        arrays = [rand_array(rng, rng.choice(['float64', 'int32', 'uint16', 'float32']), 4, rng.choice([None, 3, 3])) for _ in range(2)]
        aids = [p.array(a) for a in arrays]
        arrs = {}
        for k in range(nlf):
            lf = p.lf(1, fh_id=f'LF{k}')
            sn = f'S{k}'
            p.origin(lf, name='O', fsn=k + 1, set_name=sn)
            chans = []
            for c, aid in enumerate(aids):
                if route == 'inline':
                    ch = p.channel(lf, f'CH{c}', data=aid, set_name=sn)
                else:
                    ch = p.channel(lf, f'CH{c}', set_name=sn, dataset_name=None)
                    arrs[ch] = aid
                chans.append(ch)
            p.frame(lf, 'FR', chans, set_name=sn)
        p.write(1, route='none' if route == 'inline' else route, data_arrays=arrs, fname='first.dlis')
        p.write(1, route='none' if route == 'inline' else route, data_arrays=arrs, fname='second.dlis', in_chunk=2)
        progs.append(p.build())
    # every special bit pattern in every position: signalling / quiet NaNs with payloads, infinities, signed zeros, denormals,
    # extremes - as scalar channels, as 2-D channels of width 1 and 3, both byte orders, every route
    pat32 = ['7fa00001', '7f800001', 'ffa00000', '7fc00000', '7fc12345', 'ffc00001', '7f800000', 'ff800000', '00000000', '80000000',
             '00000001', '807fffff', '7f7fffff', '3dcccccd']
    pat64 = ['7ff4000000000001', '7ff0000000000001', 'fff4000000000000', '7ff8000000000000', '7ff8000000012345', '7ff0000000000000',
             'fff0000000000000', '0000000000000000', '8000000000000000', '0000000000000001', '800fffffffffffff', '7fefffffffffffff',
             '3fb999999999999a', 'fff8000000000001']
    k = 0
    for order in ('<', '>'):
        for route in ('inline', 'dict', 'struct', 'h5'):
            if tier == 'quick' and (order, route) not in (('<', 'inline'), ('>', 'dict'), ('<', 'struct'), ('>', 'h5')):
                continue
            k += 1
            p = Prog(f'C03-bitpatterns-{k}', {'kind': 'bitpatterns', 'order': order, 'route': route})
            lf, _ = base_lf(p, vrl=[128, 8192][k % 2])
            a32 = np.frombuffer(bytes.fromhex(''.join(pat32)), dtype='>f4').astype(np.dtype('f4').newbyteorder(order))
            a64 = np.frombuffer(bytes.fromhex(''.join(pat64)), dtype='>f8').astype(np.dtype('f8').newbyteorder(order))
            assert a32.astype('>f4').tobytes().hex() == ''.join(pat32) and a64.astype('>f8').tobytes().hex() == ''.join(pat64)
            data = [('S32', a32), ('S64', a64), ('W32', a32.reshape(-1, 1)), ('W64', a64.reshape(-1, 1)),
                    ('M32', np.stack([a32, a32[::-1], a32], axis=1)), ('M64', np.stack([a64[::-1], a64], axis=1))]
            chans, arrs = [], {}
            for nm, arr in data:
                if route == 'inline':
                    chans.append(p.channel(lf, nm, data=arr))
                else:
                    c = p.channel(lf, nm)
                    arrs[c] = p.array(arr)
                    chans.append(c)
            p.frame(lf, 'FR', chans)
            p.write(1, route='none' if route == 'inline' else route, data_arrays=arrs, in_chunk=[None, 3][k % 2])
            progs.append(p.build())
    progs += narrowcast_programs('C03', rng)
    # the dtype a channel is written with: derived from the data of each write unless the user pinned one (before the
    # first write, between two writes -- also to the very dtype derived before -- or cleared it again)
    dts = ['float32', 'float64', 'int16', 'uint8', 'int32']
    combos = [(d1, pin, d2) for d1 in dts for pin in ('same', 'other', 'clear', 'none') for d2 in dts if d2 != d1]
    for i, (d1, pin, d2) in enumerate(combos if tier == 'thorough' else rng.sample(combos, 24)):
        p = Prog(f'C03-recast-{i}', {'kind': 'recast', 'd1': d1, 'pin': pin, 'd2': d2})
        lf, _ = base_lf(p)
        rows = 5
        mk = lambda dt, k: ((np.arange(rows * 2).reshape(rows, 2) * 7 + k) % 100).astype(dt)
        ch = p.channel(lf, 'CH', cast=('int32' if pin == 'clear' else None))
        ix = p.channel(lf, 'IX')
        p.frame(lf, 'FR', [ix, ch])
        ixa = p.array(np.arange(rows, dtype='float64'))
        p.write(1, route='dict', data_arrays={ix: ixa, ch: p.array(mk(d1, 1))}, fname='first.dlis')
        if pin == 'same':
            p.set_cast(ch, d1)
        elif pin == 'other':
            p.set_cast(ch, [d for d in dts if d not in (d1, d2)][i % 3])
        elif pin == 'clear':
            p.set_cast(ch, None)
        p.write(1, route=['dict', 'struct'][i % 2], data_arrays={ix: ixa, ch: p.array(mk(d2, 2))}, fname='second.dlis')
        if i % 3 == 0:
            p.set_cast(ch, None)
            p.write(1, route='dict', data_arrays={ix: ixa, ch: p.array(mk(d1, 3))}, fname='third.dlis')
        progs.append(p.build())
    # inline arrays that are not C-contiguous (a strided column, a Fortran-ordered image), changed in place by the caller between the
    # creation of the channel and the write, or between two writes: each file holds the content at the time of its write
    for i in range(6 if tier == 'quick' else 36):
        p = Prog(f'C03-inplacelayout-{i}', {'kind': 'inplacelayout'})
        lf, _ = base_lf(p, vrl=rng.choice([128, 8192]))
        lay = ['strided', 'F', 'strided', 'view', 'C', 'F'][i % 6]
        dt = ['float64', 'int16', 'float32', 'uint8', 'int32', 'float64'][i % 6]
        a1, a2 = rand_array(rng, dt, 6), rand_array(rng, dt, 6, 3)
        id1, id2 = p.array(a1, lay), p.array(a2, lay)
        c1, c2 = p.channel(lf, 'DEPTH', data=id1), p.channel(lf, 'IMAGE', data=id2)
        p.frame(lf, 'FR', [c1, c2])
        kw = {'from': 1, 'to': 5} if i % 3 == 2 else {}
        if i % 2 == 0:
            p.write(1, fname='w1.dlis', **kw)
        p.mutate_array(id1, rand_array(rng, dt, 6))
        p.mutate_array(id2, rand_array(rng, dt, 6, 3))
        p.write(1, fname='w2.dlis', **kw)
        progs.append(p.build())
    return progs


def gen_C19(tier, seed):
    rng = rng_for('C19', tier, seed)
    progs = []
    n = 80 if tier == 'quick' else 1200
    for i in range(n):
        progs.append(data_scenario('C19', i, rng, tier, window=(i % 2 == 0)).build())
    # some channels with inline data, the others in the dict handed to write() (one and two logical files): the dict keeps its
    # keys and values
    for i in range(6 if tier == 'quick' else 40):
        p = Prog(f'C19-mixed-{i}', {'kind': 'mixed'})
        p.file(1)
        arrs = {}
        for k in range(1 + i % 2):
            lf = p.lf(1, lf=k + 1, fh_id=f'LF{k}', fh_seq=k + 1)
            sn = f'S{k}'
            p.origin(lf, name=f'O{k}', fsn=k + 1, set_name=sn)
            d = p.channel(lf, 'DEPTH', data=np.arange(4, dtype='float64') + 1000 * (k + 1), set_name=sn)       # inline, same name in both files
            r = p.channel(lf, 'RPM', set_name=sn)
            a = p.channel(lf, f'AMP{k}', set_name=sn, data=rand_array(rng, 'float32', 4, 3) if i % 3 == 0 else None)
            arrs[r] = p.array(rand_array(rng, 'int16', 4), aid='rpm')
            if i % 3:
                arrs[a] = p.array(rand_array(rng, 'float32', 4, 3))
            p.frame(lf, 'FR', [d, r, a], set_name=sn)
        p.write(1, route='dict', data_arrays=arrs, in_chunk=[None, 2][i % 2])
        if i % 2 == 0:
            p.write(1, route='dict', data_arrays=arrs, fname='again.dlis')
        progs.append(p.build())
    # an indexed frame whose index channel has a cast that loses information: the index statistics are computed on copies
    for i in range(8 if tier == 'quick' else 48):
        p = Prog(f'C19-indexcast-{i}', {'kind': 'indexcast'})
        lf, _ = base_lf(p)
        src, cast = [('float64', 'float32'), ('float64', 'int16'), ('int32', 'uint8'), ('float32', 'int32')][i % 4]
        a = (np.arange(6) * 1.1 + 1000.6).astype(src) if src.startswith('float') else (np.arange(6) * 3 + 100).astype(src)
        b = rand_array(rng, 'float64', 6, 2)
        lay = ['C', 'strided', 'view'][i % 3]
        route = ['inline', 'dict', 'struct'][(i // 2) % 3]
        ia, ib = p.array(a, lay if route != 'struct' else 'C'), p.array(b)
        if route == 'inline':
            ca, cb = p.channel(lf, 'IX', data=ia, cast=cast), p.channel(lf, 'B', data=ib)
            arrs = {}
        else:
            ca, cb = p.channel(lf, 'IX', cast=cast), p.channel(lf, 'B')
            arrs = {ca: ia, cb: ib}
        p.frame(lf, 'FR', [ca, cb], index_type=EN('FrameIndexType', 'BOREHOLE_DEPTH'))
        kw = {'from': 1, 'to': 5} if i % 2 else {}
        p.write(1, route='none' if route == 'inline' else route, data_arrays=arrs, **kw)
        p.write(1, route='none' if route == 'inline' else route, data_arrays=arrs, fname='again.dlis')
        progs.append(p.build())
    # float data with NaN / infinities under an integer cast (the written value is not judged here; the caller's arrays are)
    for i in range(12 if tier == 'quick' else 120):
        p = Prog(f'C19-nancast-{i}', {'kind': 'nancast'})
        lf, _ = base_lf(p)
        src = ['float64', 'float32'][i % 2]
        a = np.array([1.5, float('nan'), 3.0, float('inf'), -2.0, float('nan'), 7.0], dtype=src)
        b = np.array([[1.0, float('nan')], [2.0, 3.0], [float('nan'), 4.0], [5.0, 6.0], [7.0, 8.0], [9.0, 1.0], [float('-inf'), 0.0]], dtype=src)
        lay = ['C', 'strided', 'view', 'F'][(i // 2) % 4]
        route = ['inline', 'dict', 'struct', 'h5'][(i // 3) % 4]
        cast = ['int32', 'int16', 'uint8'][i % 3]
        ia, ib = p.array(a, lay), p.array(b, lay if route != 'struct' else 'C')
        if route == 'inline':
            ca = p.channel(lf, 'A', data=ia, cast=cast)
            cb = p.channel(lf, 'B', data=ib, cast=cast)
            arrs = {}
        else:
            ca = p.channel(lf, 'A', cast=cast)
            cb = p.channel(lf, 'B', cast=cast)
            arrs = {ca: ia, cb: ib}
        p.frame(lf, 'FR', [ca, cb])
        kw = {'from': 1, 'to': 6} if i % 4 == 3 else {}
        p.write(1, route='none' if route == 'inline' else route, data_arrays=arrs, in_chunk=[None, 2][i % 2], valid=False, either=True, **kw)
        progs.append(p.build())
    # failing writes: the caller's data must survive those too
    for i in range(10 if tier == 'quick' else 100):
        p = Prog(f'C19-fail-{i}', {'kind': 'data-fail', 'fringe': True})
        lf, _ = base_lf(p)
        a = rand_array(rng, 'float64', 5)
        b = rand_array(rng, rng.choice(['int16', 'uint32', 'float32']), rng.choice([3, 5]), rng.choice([None, 2]))
        lay = rng.choice(['C', 'strided', 'view', 'readonly'])
        ca = p.channel(lf, 'A')
        cb = p.channel(lf, 'B')
        ia, ib = p.array(a, lay), p.array(b, lay)
        p.frame(lf, 'FR', [ca, cb])
        kind = i % 3
        if kind == 0:      # missing dataset
            p.write(1, route='dict', data_arrays={ca: ia}, valid=False, mustraise='missing')
        elif kind == 1:    # bad window
            p.write(1, route='dict', data_arrays={ca: ia, cb: ib}, valid=False, either=True, **{'from': 7})
        else:              # fine, then again with another chunk size
            if b.shape[0] == 5:
                p.write(1, route=rng.choice(['dict', 'struct', 'h5']), data_arrays={ca: ia, cb: ib}, in_chunk=2)
            else:
                p.write(1, route='dict', data_arrays={ca: ia, cb: ib}, valid=False, mustraise='rows')
        progs.append(p.build())
    return progs


def gen_C08(tier, seed):
    rng = rng_for('C08', tier, seed)
    progs = [data_scenario('C08', i, rng, tier).build() for i in range(40 if tier == 'quick' else 600)]
    k = 0
    for width in (None, 1, 3):
        dimtrue = [1] if width is None else [width]
        for udim in ('unset', 'equal', 'different'):
            for uel in ('unset', 'equal', 'larger', 'smaller', 'longer'):
                k += 1
                p = Prog(f'C08-dim-{k}', {'kind': 'dims', 'udim': udim, 'uel': uel, 'width': width or 0})
                lf, _ = base_lf(p)
                kw = {}
                if udim == 'equal':
                    kw['dimension'] = NOJ(L(*[I(x) for x in dimtrue]))
                elif udim == 'different':
                    kw['dimension'] = NOJ(L(I(dimtrue[0] + 1)))
                if uel == 'equal':
                    kw['element_limit'] = NOJ(L(*[I(x) for x in dimtrue]))
                elif uel == 'larger':
                    kw['element_limit'] = NOJ(L(I(dimtrue[0] + 5)))
                elif uel == 'smaller':
                    kw['element_limit'] = NOJ(L(I(max(0, dimtrue[0] - 1))))
                elif uel == 'longer':
                    kw['element_limit'] = NOJ(L(I(dimtrue[0]), I(4)))
                a = rand_array(rng, 'float32', 4, width)
                idx = p.channel(lf, 'INDEX', data=np.arange(4, dtype='float64'))
                ch = p.channel(lf, 'CH', data=a, **kw)
                p.frame(lf, 'FR', [idx, ch])
                valid_ok = udim != 'different' and uel != 'smaller'
                p.write(1, valid=valid_ok, either=not valid_ok)
                progs.append(p.build())
    # one dataset under two channel names of ONE frame, with different cast dtypes
    for i in range(4 if tier == 'quick' else 24):
        p = Prog(f'C08-samedataset-{i}', {'kind': 'samedataset'})
        lf, _ = base_lf(p)
        route = ['dict', 'h5', 'struct', 'dict'][i % 4]
        src = rand_array(rng, rng.choice(['int16', 'uint8', 'float32']), 4, rng.choice([None, 2]))
        aid = p.array(src)
        casts = [(None, 'float64'), ('float64', None), ('int32' if src.dtype.kind != 'f' else 'float64', 'float32' if src.dtype.kind == 'f' else 'float64'), (None, None)][i % 4]
        ds = 'grp/shared' if route == 'h5' else 'shared'
        x = p.channel(lf, 'X', dataset_name=ds, cast=casts[0])
        if route == 'h5':
            y = p.channel(lf, 'Y', dataset_name='/' + ds, cast=casts[1])
        else:
            y = p.channel(lf, 'Y', cast=casts[1])
            p.steps.append({'op': 'set', 'obj': y, 'part': 'dataset_name', 'v': ds})
        p._ch_ds[y] = ds
        p.frame(lf, 'FR', [x, y])
        p.write(1, route=route, data_arrays={x: aid, y: aid})
        progs.append(p.build())
    # channels shared between frames / absent from all frames / one dataset under two channel names
    for i in range(6 if tier == 'quick' else 40):
        p = Prog(f'C08-share-{i}', {'kind': 'share'})
        lf, _ = base_lf(p)
        a = rand_array(rng, rng.choice(DTYPES), 4)
        b = rand_array(rng, rng.choice(DTYPES), 4, rng.choice([None, 2]))
        c1 = p.channel(lf, 'SHARED', data=a)
        c2 = p.channel(lf, 'OTHER', data=b)
        c3 = p.channel(lf, 'LONELY', data=rand_array(rng, 'int16', 4))
        p.frame(lf, 'F1', [c1, c2])
        if i % 2:
            p.frame(lf, 'F2', [c1])
        p.write(1, in_chunk=rng.choice([None, 1, 3]))
        progs.append(p.build())
        q = Prog(f'C08-twonames-{i}', {'kind': 'twonames'})
        lf, _ = base_lf(q)
        aid = q.array(rand_array(rng, 'float64', 3))
        d1 = q.channel(lf, 'SAME', dataset_name='the_data')
        d2 = q.channel(lf, 'SAME', set_name='OTHER-SET', dataset_name='more')
        q.frame(lf, 'F1', [d1])
        q.frame(lf, 'F2', [d2])
        q.write(1, route='dict', data_arrays={d1: aid, d2: aid})
        progs.append(q.build())
    # the cast given as a numpy.dtype *instance* (np.dtype('float64'), some_array.dtype) instead of the scalar type
    for v, (src, cast) in enumerate([('float32', 'float64'), ('int16', 'float64'), ('uint8', 'float64'), ('float64', 'float32'),
                                    ('int32', 'float32'), ('uint16', 'uint32'), ('float64', 'float64'), ('int16', 'int32')]):
        p = Prog(f'C08-castinstance-{v}', {'kind': 'castinstance', 'src': src, 'cast': cast})
        lf, _ = base_lf(p)
        route = ['inline', 'dict', 'struct', 'h5'][v % 4]
        a = ((np.arange(8).reshape(4, 2) * 5 + v) % 90).astype(src)
        d = np.arange(4, dtype='float64')
        if route == 'inline':
            ix = p.channel(lf, 'IX', data=d)
            ch = p.channel(lf, 'CH', data=a, cast=cast, cast_as_dtype=True)
            arrs = {}
        else:
            ix = p.channel(lf, 'IX')
            ch = p.channel(lf, 'CH', cast=cast, cast_as_dtype=True)
            arrs = {ix: p.array(d), ch: p.array(a)}
        p.frame(lf, 'FR', [ix, ch])
        p.write(1, route='none' if route == 'inline' else route, data_arrays=arrs)
        progs.append(p.build())
    # namesakes: two channels of one name in one logical file (copy numbers 0 and 1, their own data sets), in two frames or one of
    # them in no frame, with different casts - every frame's records follow the descriptors of its own channels
    for v in range(6 if tier == 'quick' else 24):
        p = Prog(f'C08-namesakes-{v}', {'kind': 'namesakes'})
        lf, _ = base_lf(p, vrl=rng.choice([128, 8192]))
        route = ['inline', 'dict', 'h5'][v % 3]
        casts = [('float32', None), (None, 'float32'), ('int16', 'float64'), ('float64', 'int32'), ('uint8', None), (None, 'int16')][v % 6]
        a1 = ((np.arange(5) * 7 + v) % 60).astype('float64')
        a2 = ((np.arange(10).reshape(5, 2) * 3 + v) % 60).astype('float64')
        d = np.arange(5, dtype='float64')
        kw1 = {'cast': casts[0]} if casts[0] else {}
        kw2 = {'cast': casts[1]} if casts[1] else {}
        if route == 'inline':
            ix1, ix2 = p.channel(lf, 'IX1', data=d), p.channel(lf, 'IX2', data=d)
            c1 = p.channel(lf, 'SAME', data=a1, dataset_name='first', **kw1)
            c2 = p.channel(lf, 'SAME', data=a2, dataset_name='second', **kw2)
            arrs = {}
        else:
            ix1, ix2 = p.channel(lf, 'IX1'), p.channel(lf, 'IX2')
            c1 = p.channel(lf, 'SAME', dataset_name='first', **kw1)
            c2 = p.channel(lf, 'SAME', dataset_name='second', **kw2)
            arrs = {ix1: p.array(d), ix2: p.array(d), c1: p.array(a1), c2: p.array(a2)}
        p.frame(lf, 'MAIN', [ix1, c1])
        if v % 4 != 3:
            p.frame(lf, 'SLOW', [ix2, c2])
        else:
            p.frame(lf, 'SLOW', [ix2])          # the second namesake is in no frame
        p.write(1, route='none' if route == 'inline' else route, data_arrays=arrs)
        progs.append(p.build())
    # cast dtype, DIMENSION and ELEMENT-LIMIT all given by the user, the dimension wrong for the data: refused, or consistent
    for v, (shape, dim, lim, cast) in enumerate([((4, 4), [5], [5], 'float32'), ((4,), [3], [3], 'float64'), ((4, 2), [2], [2], 'float32'),
                                                 ((4, 3), [3], [8], 'int32'), ((4, 3), [2], [4], 'float64'), ((4, 1), [1], [1], 'uint8')]):
        p = Prog(f'C08-allgiven-{v}', {'kind': 'allgiven', 'fringe': True, 'shape': list(shape), 'dim': dim})
        lf, _ = base_lf(p)
        a = ((np.arange(int(np.prod(shape))).reshape(shape) * 3 + v) % 100).astype('float64' if cast.startswith('float') else 'int32')
        ix = p.channel(lf, 'IX', data=np.arange(4, dtype='float64'))
        ch = p.channel(lf, 'CH', data=a, cast=cast, dimension=L(*[I(x) for x in dim]), element_limit=L(*[I(x) for x in lim]))
        p.frame(lf, 'FR', [ix, ch])
        p.write(1, valid=False, either=True)
        progs.append(p.build())
    # one frame listing two channels of one name (copy numbers 0 and 1, different shapes and dtypes), or the same channel twice:
    # refused, or every record is as long as the descriptors say
    for v in range(4):
        p = Prog(f'C08-dupchannel-{v}', {'kind': 'dupchannel', 'fringe': True})
        lf, _ = base_lf(p)
        d = p.channel(lf, 'DEPTH', data=np.arange(4, dtype='float64'))
        a1 = p.channel(lf, 'AMP', data=rand_array(rng, 'float32', 4, 3))
        if v < 2:
            a2 = p.channel(lf, 'AMP', data=rand_array(rng, 'uint16', 4, 2), set_name=None if v == 0 else 'OTHER')
            p.frame(lf, 'MAIN', [d, a1, a2])
        else:
            p.frame(lf, 'MAIN', [d, a1, a1] if v == 2 else [a1, d, a1, d])
        p.write(1, valid=False, either=True)
        progs.append(p.build())
    return progs


# ----------------------------------------------------------------------------------------------------------------------
# C04 / C05 / C07 / C09: objects of all classes
# ----------------------------------------------------------------------------------------------------------------------
def all_classes_file(pid, i, rng, pattern, mult, per_class=1, named=False, vrl=None):
    p = Prog(f'{pid}-objs-{pattern}-{i}', {'kind': 'objects', 'pattern': pattern, 'mult': mult or 0})
    lf, o = base_lf(p, vrl=vrl or rng.choice([128, 8192]))
    refs = {'ORIGIN': [o]}
    add_all_classes(p, lf, rng, refs=refs, per_class=per_class, pattern=pattern, mult=mult, set_name=('NAMED' if named else None))
    p.write(1)
    return p


def gen_C04(tier, seed):
    rng = rng_for('C04', tier, seed)
    progs = []
    i = 0
    for pattern in ('none', 'first', 'last', 'alternating', 'all', 'random'):
        for mult in ((None, 1, 2, 127, 128, 200) if tier == 'thorough' else (None, 2, 128)):
            for per_class in ((1, 2, 3) if tier == 'thorough' else (1, 2)):
                i += 1
                progs.append(all_classes_file('C04', i, rng, pattern, mult, per_class, named=(i % 3 == 0)).build())
    # units without a value (keyword route, later assignment, and derived by the writer for a non-uniform index)
    for k in range(3 if tier == 'quick' else 12):
        p = Prog(f'C04-unitsonly-{k}', {'kind': 'unitsonly'})
        lf, _ = base_lf(p)
        idx = p.channel(lf, 'DEPTH', data=np.array([0.0, 1.0, 2.5, 7.0]), units=S('m'))
        c = p.channel(lf, 'CH', data=np.arange(4, dtype='float32'))
        p.frame(lf, 'FR', [idx, c], index_type=EN('FrameIndexType', 'BOREHOLE_DEPTH') if k % 3 != 1 else None)
        p.add(lf, 'axis', 'AX', spacing=SETUP(units=S('m')))
        eq = p.add(lf, 'equipment', 'EQ', length=DICT(units=EN('Unit', 'INCH') if False else S('in')), height=SETUP(F(1.5), S('m')))
        p.set(eq, 'weight', S('kg'), part='units')
        p.add(lf, 'path', 'PATH', time=SETUP(units=S('s')), depth_offset=SETUP(I(3), S('m')))
        p.write(1)
        progs.append(p.build())
    # degenerate multiplicities: empty list (either rejected or encoded faithfully)
    for k, (cls, attr) in enumerate([('comment', 'text'), ('channel', 'properties'), ('axis', 'coordinates'),
                                     ('long_name', 'conditions'), ('calibration_coefficient', 'coefficients'), ('tool', 'parts')]):
        p = Prog(f'C04-empty-{k}', {'kind': 'emptylist', 'cls': cls, 'attr': attr, 'fringe': True})
        lf, _ = base_lf(p)
        c = p.channel(lf, 'CH', data=np.arange(3, dtype='float64'), **({attr: L()} if cls == 'channel' else {}))
        p.frame(lf, 'FR', [c])
        if cls != 'channel':
            p.add(lf, cls, 'OBJ', **{attr: L()})
            p.add(lf, cls, 'OBJ2', **{attr: value_for(CLASSES[cls][2][attr][2], rng, {}, mult=2) or L()})
        p.write(1, valid=False, either=True)
        progs.append(p.build())
    # list values that change after the assignment: extended in place, re-assigned with another length, between two writes
    for k in range(6 if tier == 'quick' else 40):
        p = Prog(f'C04-grow-{k}', {'kind': 'grow'})
        lf, _ = base_lf(p)
        c = p.channel(lf, 'CH', data=np.arange(3, dtype='float64'))
        c2 = p.channel(lf, 'CH2', data=np.arange(3, dtype='float64'))
        c3 = p.channel(lf, 'CH3', data=np.arange(3, dtype='float64'))
        p.frame(lf, 'FR', [c, c2, c3])
        n0 = [1, 2, 3][k % 3]
        texts = [S(f'line {j}') for j in range(n0)]
        com = p.add(lf, 'comment', 'COM', text=L(*texts))
        nums = [F(j + 0.5) for j in range(n0)]
        ax = p.add(lf, 'axis', 'AX', coordinates=L(*nums))
        tool = p.add(lf, 'tool', 'TOOL', channels=L(*[R(x) for x in [c, c2][:min(n0, 2)]]))
        org = p.add(lf, 'origin', 'O2', programs=L(*texts), file_set_number=I(1))
        more_n = [1, 2, 127][(k // 3) % 3]
        if k % 2 == 1:
            p.write(1, fname='first.dlis')
        more_t = [S(f'more {j}') for j in range(more_n)]
        more_f = [F(100.0 + j) for j in range(more_n)]
        if k % 4 < 2:
            p.extend(com, 'text', texts, more_t)
            p.extend(ax, 'coordinates', nums, more_f)
            p.extend(tool, 'channels', [R(x) for x in [c, c2][:min(n0, 2)]], [R(c3)])
            p.extend(org, 'programs', texts, more_t)
        else:
            p.set(com, 'text', L(*(texts + more_t)))
            p.set(ax, 'coordinates', L(*(nums + more_f)))
            p.set(tool, 'channels', L(R(c3)))
            p.set(org, 'programs', L(*more_t[:1]))
        p.write(1, fname='second.dlis')
        progs.append(p.build())
    # value lists without a common representation code (text and number, booleans), one element longer than 127 characters:
    # refused, or encoded so that the component grammar still holds
    long = 'X' * 130
    for k, vals in enumerate([[S('N/A'), F(12.5)], [S(long), F(12.5)], [F(1.0), S(long)], [BOOL(True), S(long)], [S(long), I(3), S('b')]]):
        p = Prog(f'C04-nocommoncode-{k}', {'kind': 'nocommoncode', 'fringe': True})
        lf, _ = base_lf(p)
        c = p.channel(lf, 'CH', data=np.arange(3, dtype='float64'))
        p.frame(lf, 'FR', [c])
        p.add(lf, 'axis', 'AX', coordinates=L(*vals))
        z = [p.add(lf, 'zone', f'Z{j}') for j in range(len(vals))]
        p.add(lf, 'parameter', 'PAR', zones=L(*[R(x) for x in z]), values=L(*vals))
        p.add(lf, 'comment', 'AFTER', text=L(S('an object after the doubtful ones')))
        p.write(1, valid=False, either=True)
        progs.append(p.build())
    progs += attr_programs('C04')
    # crowds of same-named objects: copy numbers 127, 128, ... 130 (the copy number of an OBNAME is one USHORT byte, whatever its value)
    # in the objects' own record and in the references to them
    for i in range(2):
        p = Prog(f'C04-manycopies-{i}', {'kind': 'manycopies'})
        lf, _ = base_lf(p, vrl=[8192, 256][i])
        p.frame(lf, 'FR', [p.channel(lf, 'CH', data=np.arange(3, dtype='float64'))])
        zs = [p.add(lf, 'zone', 'ZONE-A', domain=S('BOREHOLE-DEPTH')) for _ in range(131 if i == 0 else 129)]
        picks = [zs[0], zs[127], zs[128], zs[-1]]
        p.add(lf, 'parameter', 'P', zones=L(*[R(z) for z in picks]), values=L(*[I(k) for k in range(len(picks))]))
        p.add(lf, 'group', 'G', object_list=L(R(zs[128]), R(zs[1])))
        p.write(1)
        progs.append(p.build())
    return progs


def repo_fixture_programs(pid, rng, rows=5):
    """The repository's own fixture builders (src/tests/dlis_files_for_testing), executed under the recorder."""
    progs = []

    def data_arrays(p, keys2d, rows=rows):
        m = {}
        for k in ('contents/time', '/contents/time', 'contents/depth', '/contents/depth', 'contents/rpm'):
            m[k] = p.array(np.arange(rows, dtype='float64') * (0.5 if 'time' in k else 1.0) + (100 if 'depth' in k else 0), aid='d' + str(len(m)))
        for k in keys2d:
            m[k] = p.array(rand_array(rng, 'float32', rows, 128), aid='d' + str(len(m)))
        return m

    for func, mod in (('write_short_dlis', 'short_dlis'), ('write_time_based_dlis', 'time_based_dlis'), ('write_depth_based_dlis', 'depth_based_dlis')):
        p = Prog(f'{pid}-repo-{mod}', {'kind': 'repofixture', 'module': mod})
        m = data_arrays(p, ['contents/image0', 'contents/image1', '/contents/image1', 'contents/image2', 'image1', 'image2', 'amplitude'])
        p.steps.append({'op': 'script', 'module': f'tests.dlis_files_for_testing.{mod}', 'func': func,
                        'args': [{'t': 'path', 'v': 'out.dlis'}, {'t': 'arrays', 'v': m}]})
        progs.append(p.build())
    # the repository's own tests that write files, run unmodified by pytest with the public API wrapped by the recorder
    # (files above 60 kB are not handed to TLC; the same builders are run with short data above)
    p = Prog(f'{pid}-repo-pytest', {'kind': 'repofixture', 'module': 'pytest'})
    p.steps.append({'op': 'script', 'pytest': ['src/tests/test_file/test_dlis_creation.py', 'src/tests/test_file/test_double_frame.py',
                                               'src/tests/test_file/test_channels_in_file.py', 'src/tests/test_file/test_origin_options.py'],
                    'max_file': 60000})
    progs.append(p.build())
    p = Prog(f'{pid}-repo-dlis_from_dict', {'kind': 'repofixture', 'module': 'dlis_from_dict'})
    m = {'depth': p.array(np.arange(6, dtype='float64')), 'rpm': p.array(rand_array(rng, 'int32', 6)), 'amp': p.array(rand_array(rng, 'float32', 6, 4))}
    p.steps.append({'op': 'script', 'module': 'tests.dlis_files_for_testing.dlis_from_dict', 'func': 'write_dlis_from_dict',
                    'args': [{'t': 'path', 'v': 'out.dlis'}, {'t': 'arrays', 'v': m}]})
    progs.append(p.build())
    p = Prog(f'{pid}-repo-double_frame', {'kind': 'repofixture', 'module': 'double_frame_dlis'})
    m1 = {'depth1': p.array(np.arange(4, dtype='float64')), 'a1': p.array(rand_array(rng, 'float64', 4, 3))}
    m2 = {'depth2': p.array(np.arange(7, dtype='float32')), 'b2': p.array(rand_array(rng, 'uint16', 7))}
    p.steps.append({'op': 'script', 'module': 'tests.dlis_files_for_testing.double_frame_dlis', 'func': 'write_double_frame_dlis',
                    'args': [{'t': 'path', 'v': 'out.dlis'}, {'t': 'arrays', 'v': m1}, {'t': 'arrays', 'v': m2}]})
    progs.append(p.build())
    import lib
    for script in ('create_synth_dlis.py', 'create_dlis_equivalent_frames.py'):
        p = Prog(f'{pid}-repo-example-{script[:-3]}', {'kind': 'repoexample', 'module': script})
        p.steps.append({'op': 'script', 'run_path': os.path.join(lib.REPO, 'examples', script), 'syspath': [os.path.join(lib.REPO, 'examples')]})
        q = p.build()
        q['np_seed'] = 12345
        progs.append(q)
    return progs


def attr_programs(pid):
    """All combinations of spec/AttrEncoder.tla (x two attribute classes), replayed on real Attribute objects."""
    cases = []
    for kind in ('numeric', 'generic'):
        for mv in (False, True):
            for md in ((False, True) if mv else (False,)):
                for given in ('none', 'scalar', 'empty', 'one', 'two', 'many', 'nested'):
                    for units in (False, True):
                        for code in ('explicit', 'inferred'):
                            cases.append({'kind': kind, 'mv': mv, 'md': md, 'given': given, 'units': units, 'code': code})
    p = Prog(f'{pid}-attrcombos', {'kind': 'attrcombos'})
    p.steps.append({'op': 'attr', 'cases': cases})
    return [p.build()]


def gen_C05(tier, seed):
    rng = rng_for('C05', tier, seed)
    progs = []
    n = 25 if tier == 'quick' else 400
    for i in range(n):
        progs.append(all_classes_file('C05', i, rng, rng.choice(['all', 'random', 'alternating']), None,
                                      per_class=rng.choice([1, 2])).build())
    # naive date-times in a process whose local zone observes daylight saving time: summer and winter wall-clock times, the last hour
    # of a month / year, by every assignment route (keyword, dict, AttrSetup, later .value), date-time objects and strings
    for i, zone in enumerate(['CET-1CEST,M3.5.0,M10.5.0/3', 'EST5EDT,M3.2.0,M11.1.0', 'AEST-10AEDT,M10.1.0,M4.1.0/3']):
        for j, (mo, d, h) in enumerate([(7, 15, 12), (1, 15, 12), (7, 31, 23), (12, 31, 23), (6, 30, 0)]):
            if tier == 'quick' and (i + j) % 2:
                continue
            p = Prog(f'C05-dst-{i}-{j}', {'kind': 'dst', 'zone': zone})
            p.tz = zone
            lf, o = base_lf(p)
            when = DT(2021, mo, d, h, 30 if h else 10, 5, 250000 if j % 2 else 0, tzmin=None)
            routes = [when, DICT(when), SETUP(when)]
            p.add(lf, 'origin', f'SECOND', file_set_number=I(2), creation_time=routes[j % 3])
            p.add(lf, 'zone', 'WHEN', domain=S('TIME'), maximum=when, minimum=DT(2021, mo, d, h, 5, 0, 0, tzmin=None))
            msg = p.add(lf, 'message', 'MSG', time=SETUP(DT(2021, mo, d, h, 45, 0, 0, tzmin=None)))
            cal = p.add(lf, 'calibration_measurement', 'CM')
            p.set(cal, 'begin_time', when)
            p.frame(lf, 'FR', [p.channel(lf, 'CH', data=np.arange(3, dtype='float64'))])
            p.write(1)
            progs.append(p.build())
    # assignment routes: keyword, dict, AttrSetup, later .value / .units
    for i in range(25 if tier == 'quick' else 300):
        p = Prog(f'C05-routes-{i}', {'kind': 'routes'})
        p.tz = rng.choice(['UTC0', 'AAA-05:30', 'BBB+11', 'CET-1CEST,M3.5.0,M10.5.0/3', 'EST5EDT,M3.2.0,M11.1.0'])
        lf, o = base_lf(p)
        refs = {'ORIGIN': [o]}
        cls = rng.choice(['equipment', 'axis', 'well_reference_point', 'path', 'message', 'calibration_coefficient'])
        table = CLASSES[cls][2]
        kw = {}
        later = []
        for k, (attr, label, kind) in table.items():
            v = value_for(kind, rng, refs, mult=rng.choice([1, 2, 3]))
            if v is None:
                continue
            base = kind.rstrip('+')
            route = rng.choice(['kw', 'dict', 'setup', 'later', 'skip'])
            if cls == 'calibration_coefficient' and kind == 'N+':
                v = L(*(v['v'][:1] * 2)) if v['t'] == 'list' else v
            unit_ok = base in ('N', 'NF', 'ANY', 'DTN') and v['t'] != 'dt'
            if route == 'kw':
                kw[k] = v
            elif route == 'dict':
                kw[k] = DICT(v, S(rng.choice(['m', 'ft', 's']))) if unit_ok else DICT(v)
            elif route == 'setup':
                kw[k] = SETUP(v, EN('Unit', rng.choice(ENUM_MEMBERS['Unit']))) if unit_ok else SETUP(v)
            elif route == 'later':
                later.append((attr, v, unit_ok))
        obj = p.add(lf, cls, 'THE-OBJECT', **kw)
        for attr, v, unit_ok in later:
            p.set(obj, attr, v)
            if unit_ok and rng.random() < 0.5:
                p.set(obj, attr, rng.choice([S('m'), EN('Unit', 'SECOND')]), part='units')
        c = p.channel(lf, 'CH', data=np.arange(3, dtype='float64'), units=rng.choice([None, EN('Unit', 'METER'), S('ft')]))
        p.frame(lf, 'FR', [c])
        # naive date-times are local time (TZ is set per scenario)
        if rng.random() < 0.5:
            p.add(lf, 'zone', 'NAIVE-ZONE', maximum={'t': 'dt', 'y': 2001, 'mo': 2, 'd': 3, 'h': 23, 'mi': 30, 's': 1, 'us': 2000, 'tzmin': None})
        p.write(1)
        progs.append(p.build())
    # origin attributes incl. text of boundary lengths
    for i in range(10 if tier == 'quick' else 100):
        p = Prog(f'C05-origin-{i}', {'kind': 'origin'})
        p.file(1)
        lf = p.lf(1, fh_id='ORIGIN-TEST')
        kw = make_kwargs('origin', rng, {}, 'random', None, units_p=0)
        kw.pop('file_set_number', None)
        kw.pop('creation_time', None)
        if i % 3 == 0:
            kw['well_name'] = S(text(rng, rng.choice([255, 256, 16383, 16384, 20000])))
        p.origin(lf, name='O', fsn=rng.choice([1, 127, 128, 16384, 2 ** 30 - 1]), **kw)
        c = p.channel(lf, 'CH', data=np.arange(3, dtype='float64'))
        p.frame(lf, 'FR', [c])
        p.write(1)
        progs.append(p.build())
    # one {'value': .., 'units': ..} dict (the very same object) handed to several attributes, objects and calls
    for i in range(3):
        p = Prog(f'C05-shareddict-{i}', {'kind': 'shareddict'})
        lf, o = base_lf(p)
        c = p.channel(lf, 'CH', data=np.arange(3, dtype='float64'))
        p.frame(lf, 'FR', [c])
        depth = lambda: SHARED('depth', F(1234.5), S('m'))
        size = lambda: SHARED('size', I(7), S('in'))
        e1 = p.add(lf, 'equipment', 'EQ1', vertical_depth=depth(), length=size(), **({'height': depth()} if i else {}))
        e2 = p.add(lf, 'equipment', 'EQ2', vertical_depth=depth(), length=size())
        p.add(lf, 'path', 'PATH', vertical_depth=depth(), time=SHARED('t', F(2.5), S('s')), depth_offset=SHARED('t', F(2.5), S('s')))
        if i == 2:
            p.write(1, fname='first.dlis')
            p.add(lf, 'equipment', 'EQ3', vertical_depth=depth(), weight=size())
        p.write(1)
        progs.append(p.build())
    # text values of PARAMETER VALUES / AXIS COORDINATES that only look like numbers to some parsers ('NaN', 'inf', '1e3', '0x10'):
    # the library documents the conversion of digit strings ('12', '12.5') - everything else the user assigned as text stays text
    for i, texts in enumerate([['NaN'], ['inf'], ['-Infinity'], ['2E5'], ['1e3', 'nan'], ['1e-3'], ['0x10'], ['Near'], ['1,5'], ['12 m']]):
        p = Prog(f'C05-textnumbers-{i}', {'kind': 'textnumbers', 'texts': texts})
        lf, o = base_lf(p)
        c = p.channel(lf, 'CH', data=np.arange(3, dtype='float64'))
        p.frame(lf, 'FR', [c])
        p.add(lf, 'parameter', 'PAR', values=L(S(texts[0])))
        p.add(lf, 'axis', 'AX', coordinates=L(*[S(t) for t in texts]))
        ax2 = p.add(lf, 'axis', 'AX2')
        p.set(ax2, 'coordinates', L(*[S(t) for t in texts]))
        p.write(1)
        progs.append(p.build())
    # other forms of the same values: numpy arrays as attribute values, tuples for lists of references
    for i in range(3):
        p = Prog(f'C05-forms-{i}', {'kind': 'forms'})
        lf, o = base_lf(p)
        c = p.channel(lf, 'CH', data=np.arange(3, dtype='float64'))
        c2 = p.channel(lf, 'CH2', data=np.arange(3, dtype='float64'))
        st = p.frame(lf, 'FR', [c, c2])
        p.steps[-1]['kw']['channels'] = TUP(R(c), R(c2))                       # a tuple of channels
        p.add(lf, 'axis', 'AX', coordinates=ARR(['float64', 'int32', 'float32'][i], F(1.5) if i != 1 else I(1), F(2.5) if i != 1 else I(2), F(4.0) if i != 1 else I(4)))
        z1, z2 = p.add(lf, 'zone', 'Z1'), p.add(lf, 'zone', 'Z2')
        p.add(lf, 'parameter', 'PAR', zones=TUP(R(z1), R(z2)), values=ARR('float64', L(F(1.0), F(2.0)), L(F(3.0), F(4.0)), nested=True))
        p.add(lf, 'tool', 'TOOL', channels=TUP(R(c)), parts=TUP())
        p.add(lf, 'comment', 'COM', text=TUP(S('a'), S('b')))
        p.write(1, valid=False, either=True)
        progs.append(p.build())
    # attributes the library fills in on its own (FILE-ID of every origin) assigned by the user instead, several writes
    for i in range(3):
        p = Prog(f'C05-ownfileid-{i}', {'kind': 'ownfileid'})
        p.file(1)
        lf = p.lf(1, fh_id='MAIN HEADER ID')
        o1 = p.origin(lf, name='DEFINING')
        o2 = p.origin(lf, name='SECOND', fsn=2)
        c = p.channel(lf, 'CH', data=np.arange(3, dtype='float64'))
        p.frame(lf, 'FR', [c])
        if i == 2:
            p.write(1, fname='before.dlis')
        p.set(o2, 'file_id', S('SIDETRACK 2 ACQUISITION'))
        if i == 1:
            p.set(o2, 'field_name', S('A FIELD'))
        p.write(1, fname='first.dlis')
        p.write(1, fname='second.dlis')
        p.write(1, fname='third.dlis')
        progs.append(p.build())
    # FRAME ENCRYPTED takes booleans, 0/1 numbers and yes/no words
    for i, v in enumerate([BOOL(True), BOOL(False), I(1), F(0.0), NOJ(S('yes')), NOJ(S('F')), NOJ(S('maybe')), NOJ(I(2))]):
        p = Prog(f'C05-encrypted-{i}', {'kind': 'encrypted'})
        lf, o = base_lf(p)
        c = p.channel(lf, 'CH', data=np.arange(3, dtype='float64'))
        p.frame(lf, 'FR', [c], encrypted=v)
        if i >= 4:      # refused by add_frame: a frame is still needed
            c2 = p.channel(lf, 'CH2', data=np.arange(3, dtype='float64'))
            p.frame(lf, 'FR2', [c2])
        p.write(1)
        progs.append(p.build())
    # numpy scalars as attribute values (alone, in lists of one dtype, in lists of several dtypes of one family)
    npsets = [('one-f4', [NP('float32', 1.5)]), ('one-f8', [NP('float64', 2.25)]), ('one-i2', [NP('int16', -3)]), ('one-u1', [NP('uint8', 200)]),
              ('list-i2', [NP('int16', -3), NP('int16', 4)]), ('list-u4', [NP('uint32', 4000000000), NP('uint32', 1)]),
              ('mix-float', [NP('float32', 1.5), NP('float64', 2.25)]), ('mix-sint', [NP('int8', 1), NP('int32', 70000)]),
              ('mix-uint', [NP('uint8', 1), NP('uint16', 300)])]
    for i, (tag, vals) in enumerate(npsets):
        p = Prog(f'C05-numpy-{tag}', {'kind': 'numpyvalues', 'tag': tag})
        lf, o = base_lf(p)
        c = p.channel(lf, 'CH', data=np.arange(3, dtype='float64'))
        p.frame(lf, 'FR', [c])
        p.add(lf, 'axis', 'AX', coordinates=L(*vals), spacing=vals[0])
        p.add(lf, 'parameter', 'PAR', values=L(vals[0]))
        eq = p.add(lf, 'equipment', 'EQ', height=SETUP(vals[0], S('m')))
        p.set(eq, 'weight', vals[-1])
        p.add(lf, 'calibration_coefficient', 'CC', coefficients=L(*vals), references=L(*vals))
        p.write(1)
        progs.append(p.build())
    # lists mixing families (python int and float, signed and unsigned, float and integer numpy scalars): refused or faithful
    for i, vals in enumerate([[I(1), F(2.5)], [F(2.5), I(1)], [NP('int8', -1), NP('uint32', 4000000000)], [NP('uint8', 1), NP('float32', 2.5)],
                              [NP('float32', 1.5), NP('int8', 1)], [I(1), NP('int16', 2)], [F(1.0), NP('float32', 2.0)]]):
        p = Prog(f'C05-mixed-{i}', {'kind': 'mixedvalues', 'fringe': True})
        lf, o = base_lf(p)
        c = p.channel(lf, 'CH', data=np.arange(3, dtype='float64'))
        p.frame(lf, 'FR', [c])
        p.add(lf, 'axis', 'AX', coordinates=L(*vals))
        p.write(1, valid=False, either=True)
        progs.append(p.build())
    # the kind of a value changes after a file was written (text, integer, float, date-time, reference): the second file
    # carries the code of the value it holds, not of the one written before
    kinds = {'text': lambda j: L(S(f'txt{j}'), S('b')), 'int': lambda j: L(I(5 + j), I(-7)), 'float': lambda j: L(F(1.5 + j), F(2.25))}
    switches = [('par', a, b) for a in kinds for b in kinds if a != b] + [('ax', a, b) for a in kinds for b in kinds if a != b]
    switches += [(w, a, b) for w in ('parln', 'chln') for (a, b) in (('text', 'ref'), ('ref', 'text'))]
    switches += [(w, a, b) for w in ('zone', 'msg') for (a, b) in (('float', 'dt'), ('dt', 'float'))]
    for i, (what, a, b) in enumerate(switches):
        p = Prog(f'C05-kindswitch-{i}', {'kind': 'kindswitch', 'what': what, 'from': a, 'to': b})
        lf, o = base_lf(p)
        ln = p.add(lf, 'long_name', 'LN', quantity=S('speed'))
        lnv = {'text': S('a text long name'), 'ref': R(ln)}
        tv = {'float': lambda j: F(10.5 + j), 'dt': lambda j: DT(2001 + j, 2, 3, 4, 5, 6)}
        c = p.channel(lf, 'CH', data=np.arange(3, dtype='float64'), long_name=lnv[a] if what == 'chln' else None)
        p.frame(lf, 'FR', [c])
        if what == 'par':
            obj, attr, v1, v2 = p.add(lf, 'parameter', 'PAR', values=L(kinds[a](0)['v'][0])), 'values', None, L(kinds[b](2)['v'][0])
        elif what == 'ax':
            obj, attr, v1, v2 = p.add(lf, 'axis', 'AX', coordinates=kinds[a](1)), 'coordinates', None, kinds[b](3)
        elif what == 'parln':
            obj, attr, v2 = p.add(lf, 'parameter', 'PAR2', long_name=lnv[a]), 'long_name', lnv[b]
        elif what == 'chln':
            obj, attr, v2 = c, 'long_name', lnv[b]
        elif what == 'zone':
            obj, attr, v2 = p.add(lf, 'zone', 'ZN', maximum=tv[a](0)), 'maximum', tv[b](1)
        else:
            obj, attr, v2 = p.add(lf, 'message', 'MSG', time=tv[a](0)), 'time', tv[b](1)
        p.write(1, fname='first.dlis')
        p.set(obj, attr, v2)
        p.write(1, fname='second.dlis')
        progs.append(p.build())
    return progs


def gen_C07(tier, seed):
    rng = rng_for('C07', tier, seed)
    progs = []
    n = 30 if tier == 'quick' else 400
    for i in range(n):
        p = Prog(f'C07-graph-{i}', {'kind': 'graph'})
        p.file(1, vrl=rng.choice([128, 8192]))
        lf = p.lf(1, fh_id='GRAPH')
        origin_late = rng.random() < 0.4
        refs = {}
        if not origin_late:
            refs['ORIGIN'] = [p.origin(lf, name='O1', origin_reference=rng.choice([None, None, 5, 200]))]
            if rng.random() < 0.4:
                refs['ORIGIN'].append(p.origin(lf, name='O2', fsn=2, origin_reference=rng.choice([None, 9])))
        # repeated names: copy numbers
        names = ['DUP', 'DUP', 'UNIQ', 'DUP'] if rng.random() < 0.6 else ['A', 'B', 'C', 'D']
        chans = []
        for j, nm in enumerate(names):
            explicit = rng.choice([None, None, None, 5 if not origin_late else None])
            a = rand_array(rng, rng.choice(['float64', 'uint16']), 3)
            chans.append(p.channel(lf, nm, data=a, origin_reference=explicit if (refs.get('ORIGIN') and explicit == 5 and False) else None))
        refs['CHANNEL'] = chans
        refs['FRAME'] = [p.frame(lf, 'FR', [chans[0], chans[2]]), p.frame(lf, 'FR', [chans[1]]), p.frame(lf, 'FR2', [chans[3]])]
        for cls in rng.sample(ORDER, 8):
            if cls in ('channel', 'frame'):
                continue
            st = CLASSES[cls][0]
            for j in range(rng.choice([1, 2, 3])):
                kw = make_kwargs(cls, rng, refs, 'all' if rng.random() < 0.5 else 'random', None)
                nm = 'SAME' if rng.random() < 0.5 else f'N{j}'
                refs.setdefault(st, []).append(p.add(lf, cls, nm, **kw))
        if origin_late:
            refs['ORIGIN'] = [p.origin(lf, name='O1', origin_reference=rng.choice([None, 3]))]
        p.write(1)
        progs.append(p.build())
    # the same name in two sets of one type (known finding K03)
    for i in range(3):
        p = Prog(f'C07-twosets-{i}', {'kind': 'twosets'})
        lf, o = base_lf(p)
        c1 = p.channel(lf, 'SAME', data=np.arange(3, dtype='float64'))
        c2 = p.channel(lf, 'SAME', data=np.arange(3, dtype='float64') + 1, set_name='SECOND-SET')
        p.frame(lf, 'FR1', [c1])
        p.frame(lf, 'FR2', [c2], set_name='SECOND-SET' if i else None)
        if i == 2:
            z1 = p.add(lf, 'zone', 'Z')
            z2 = p.add(lf, 'zone', 'Z', set_name='MORE-ZONES')
            p.add(lf, 'parameter', 'P', zones=L(R(z2)), values=L(F(1.0)))
        p.write(1)
        progs.append(p.build())
    # references to a missing origin: either rejected or written with a resolvable origin
    for i in range(4):
        p = Prog(f'C07-noorigin-{i}', {'kind': 'badoriginref', 'fringe': True})
        lf, o = base_lf(p)
        c = p.channel(lf, 'CH', data=np.arange(3, dtype='float64'), origin_reference=7 + i)
        p.frame(lf, 'FR', [c])
        p.write(1, valid=False, either=True)
        progs.append(p.build())
    # references after the target was renamed or moved to another origin between two writes (OBNAME and OBJREF links)
    for i in range(6 if tier == 'quick' else 24):
        p = Prog(f'C07-retarget-{i}', {'kind': 'retarget'})
        lf, o = base_lf(p)
        p.origin(lf, name='SECOND', fsn=2, origin_reference=9)
        a = p.channel(lf, 'A', data=np.arange(3, dtype='float64'))
        b = p.channel(lf, 'B', data=np.arange(3, dtype='float64') + 1)
        fr = p.frame(lf, 'FR', [a, b])
        z = p.add(lf, 'zone', 'Z')
        tl = p.add(lf, 'tool', 'TOOL', channels=L(R(a)))
        p.set(b, 'source', R(a) if i % 2 else R(tl))
        p.add(lf, 'group', 'G', object_list=L(R(a), R(z), R(tl)))
        p.add(lf, 'computation', 'COMP', source=R(a) if i % 2 == 0 else R(tl), zones=L(R(z)), values=L(F(1.0)))
        p.add(lf, 'parameter', 'PAR', zones=L(R(z)), values=L(F(2.0)))
        p.add(lf, 'calibration_measurement', 'CM', measurement_source=R(a))
        p.write(1, fname='first.dlis')
        what = ['origin-channel', 'origin-zone', 'origin-tool', 'rename-channel', 'rename-tool', 'both'][i % 6]
        if what in ('origin-channel', 'both'):
            p.set_origin_ref(a, 9)
        if what == 'origin-zone':
            p.set_origin_ref(z, 9)
        if what in ('origin-tool', 'both'):
            p.set_origin_ref(tl, 9)
        if what in ('rename-channel', 'both'):
            p.rename(a, 'A-RENAMED')
        if what == 'rename-tool':
            p.rename(tl, 'TOOL-RENAMED')
        p.write(1, fname='second.dlis')
        p.set_origin_ref(a, 9 if what not in ('origin-channel', 'both') else None) if False else None
        progs.append(p.build())
    # every class once with an explicit origin_reference (that of a second origin), the defining origin having a reference of its
    # own choosing (3) or the library's (0): the object carries the origin the user chose
    for i, defref in enumerate([3, None, 200]):
        p = Prog(f'C07-explicitorigin-{i}', {'kind': 'explicitorigin', 'defref': defref or 0})
        p.file(1)
        lf = p.lf(1, fh_id='EXPLICIT-ORIGINS')
        p.origin(lf, name='DEFINING', origin_reference=defref)
        p.origin(lf, name='SECOND', fsn=2, origin_reference=7)
        refs = {}
        for cls in ORDER:
            if cls in ('origin', 'frame', 'channel'):
                continue
            kw = make_kwargs(cls, rng, refs, 'none', None)
            refs.setdefault(CLASSES[cls][0], []).append(p.add(lf, cls, f'X-{cls}'.upper()[:20], origin_reference=7, **kw))
        c1 = p.channel(lf, 'CH-EXPLICIT', data=np.arange(3, dtype='float64'), origin_reference=7)
        c2 = p.channel(lf, 'CH-DEFAULT', data=np.arange(3, dtype='float64'))
        p.frame(lf, 'FR-EXPLICIT', [c1], origin_reference=7)
        p.frame(lf, 'FR-DEFAULT', [c2])
        p.write(1)
        progs.append(p.build())
    # typed references (OBJREF) to objects that live in named sets, in one and in two logical files
    for i in range(3):
        p = Prog(f'C07-namedsetrefs-{i}', {'kind': 'namedsetrefs'})
        p.file(1)
        for k in range(1 + i % 2):
            lf = p.lf(1, lf=k + 1, fh_id=f'LF{k}', fh_seq=k + 1)
            sn = f'NAMED-{k}'
            p.origin(lf, name=f'O{k}', fsn=k + 1, set_name=sn)
            a = p.channel(lf, 'A', data=np.arange(3, dtype='float64'), set_name=sn)
            tl = p.add(lf, 'tool', 'TOOL', set_name=sn, channels=L(R(a)))
            z = p.add(lf, 'zone', 'Z', set_name=sn if i < 2 else None)
            b = p.channel(lf, 'B', data=np.arange(3, dtype='float64'), set_name=sn, source=R(tl))
            p.frame(lf, 'FR', [a, b], set_name=sn)
            p.add(lf, 'group', 'G', set_name=sn, object_list=L(R(a), R(z), R(tl)))
            p.add(lf, 'computation', 'COMP', set_name=sn, source=R(a))
            p.add(lf, 'calibration_measurement', 'CM', set_name=sn, measurement_source=R(b))
        p.write(1)
        progs.append(p.build())
    # an object renamed to a name another object of its set already has: identities stay distinct, references keep their target
    for i in range(4):
        p = Prog(f'C07-renamecollide-{i}', {'kind': 'renamecollide'})
        lf, o = base_lf(p)
        c = p.channel(lf, 'CH', data=np.arange(3, dtype='float64'))
        p.frame(lf, 'FR', [c])
        za = p.add(lf, 'zone', 'A', description=S('first'))
        zb = p.add(lf, 'zone', 'B', description=S('second'))
        zc = p.add(lf, 'zone', 'A', description=S('third'))            # copy 1 of A
        p.add(lf, 'parameter', 'P', zones=L(R(zb)), values=L(F(1.0)))
        p.add(lf, 'group', 'G', object_list=L(R(za), R(zb), R(zc)))
        if i % 2:
            p.write(1, fname='first.dlis')
        p.rename(zb, 'A')
        if i >= 2:
            p.rename(za, 'B')          # and the first one takes the name that became free
        p.write(1, fname='second.dlis')
        progs.append(p.build())
    # ... and a name that lost one of its objects by a rename gets a new object: the copy numbers of that name stay distinct
    for i in range(3):
        p = Prog(f'C07-renameaway-{i}', {'kind': 'renameaway'})
        lf, o = base_lf(p)
        c = p.channel(lf, 'CH', data=np.arange(3, dtype='float64'))
        p.frame(lf, 'FR', [c])
        z0 = p.add(lf, 'zone', 'A', description=S('copy 0'))
        z1 = p.add(lf, 'zone', 'A', description=S('copy 1'))
        z2 = p.add(lf, 'zone', 'A', description=S('copy 2')) if i else None
        p.rename(z0 if i != 2 else z1, 'B')
        z3 = p.add(lf, 'zone', 'A', description=S('added after the rename'))
        p.add(lf, 'group', 'G', object_list=L(*[R(z) for z in (z0, z1, z2, z3) if z]))
        p.write(1)
        progs.append(p.build())
    progs += foreign_reference_programs('C07')
    return progs


def foreign_reference_programs(pid):
    progs = []
    # a reference to an object of another logical file cannot resolve within the logical file: rejected, or not written so
    foreign = [('frame', 'channels', 'channel'), ('tool', 'channels', 'channel'), ('parameter', 'zones', 'zone'),
               ('channel', 'axis', 'axis'), ('calibration', 'calibrated_channels', 'channel'), ('group', 'object_list', 'zone'),
               ('process', 'input_channels', 'channel'), ('splice', 'output_channel', 'channel'), ('path', 'frame_type', 'frame'),
               ('tool', 'parts', 'equipment'), ('computation', 'source', 'tool'), ('calibration', 'coefficients', 'calibration_coefficient'),
               ('channel', 'source', 'tool'), ('calibration_measurement', 'measurement_source', 'channel'), ('channel', 'long_name', 'long_name'),
               ('parameter', 'long_name', 'long_name')]
    for i, (cls, attr, tcls) in enumerate(foreign):
        p = Prog(f'{pid}-foreign-{i}', {'kind': 'foreign', 'fringe': True, 'cls': cls, 'attr': attr})
        p.file(1)
        lfs = []
        for n in (1, 2):
            lf = p.lf(1, lf=n, fh_id=f'LF{n}', fh_seq=n)
            sn = f'SET-{n}'
            p.origin(lf, name=f'O{n}', fsn=n, set_name=sn)
            c = p.channel(lf, f'CH{n}', data=np.arange(3, dtype='float64'), set_name=sn)
            fr = p.frame(lf, f'FR{n}', [c], set_name=sn)
            lfs.append((lf, sn, c, fr))
        (l1, s1, c1, f1), (l2, s2, c2, f2) = lfs
        if tcls == 'channel':
            tgt = c2
        elif tcls == 'frame':
            tgt = f2
        else:
            tgt = p.add(l2, tcls, 'TARGET', set_name=s2)
        single = attr in ('output_channel', 'frame_type', 'source', 'measurement_source', 'long_name')
        val = R(tgt) if single else L(R(tgt))
        if cls == 'frame':
            extra = p.channel(l1, 'EXTRA', data=np.arange(3, dtype='float64'), set_name=s1)
            p.frame(l1, 'FOREIGN', [extra, tgt], set_name=s1)
        elif cls == 'channel':
            ch = p.channel(l1, 'FOREIGN', data=np.arange(3, dtype='float64'), set_name=s1, **{attr: val})
            p.frame(l1, 'FRX', [ch], set_name=s1)
        else:
            p.add(l1, cls, 'FOREIGN', set_name=s1, **{attr: val})
        p.write(1, valid=False, either=True)
        progs.append(p.build())
    # the same with the target in another DLISFile of the process (default set names: the referencing logical file has a set of the
    # target's type and name of its own, holding an object of its own)
    for i, (cls, attr, tcls) in enumerate(foreign):
        p = Prog(f'{pid}-foreign-otherfile-{i}', {'kind': 'foreign', 'fringe': True, 'cls': cls, 'attr': attr, 'otherfile': True})
        made = []
        for n in (1, 2):
            p.file(n)
            lf = p.lf(n, lf=n, fh_id=f'FILE{n}')
            p.origin(lf, name=f'O{n}', fsn=n)
            c = p.channel(lf, f'CH{n}', data=np.arange(3, dtype='float64'))
            fr = p.frame(lf, f'FR{n}', [c])
            own = None if tcls in ('channel', 'frame') else p.add(lf, tcls, 'TARGET' if n == 2 else 'OWN')
            made.append((lf, c, fr, own))
        (l1, c1, f1, o1), (l2, c2, f2, o2) = made
        tgt = {'channel': c2, 'frame': f2}.get(tcls, o2)
        single = attr in ('output_channel', 'frame_type', 'source', 'measurement_source', 'long_name')
        val = R(tgt) if single else L(R(tgt))
        if cls == 'frame':
            extra = p.channel(l1, 'EXTRA', data=np.arange(3, dtype='float64'))
            p.frame(l1, 'FOREIGN', [extra, tgt])
        elif cls == 'channel':
            ch = p.channel(l1, 'FOREIGN', data=np.arange(3, dtype='float64'), **{attr: val})
            p.frame(l1, 'FRX', [ch])
        else:
            p.add(l1, cls, 'FOREIGN', **{attr: val})
        p.write(1, valid=False, either=True)
        p.write(2)
        progs.append(p.build())
    return progs


def gen_C09(tier, seed):
    rng = rng_for('C09', tier, seed)
    progs = []
    for i, (seq, idl) in enumerate([(1, 0), (9, 1), (10, 64), (10 ** 10 - 1, 65), (123456, 30)]):
        p = Prog(f'C09-header-{i}', {'kind': 'header'})
        p.file(1)
        lf = p.lf(1, fh_id=rand_name(rng, idl) if idl else '', fh_seq=seq)
        p.origin(lf, name='O')
        c = p.channel(lf, 'CH', data=np.arange(3, dtype='float64'))
        p.frame(lf, 'FR', [c])
        p.write(1)
        progs.append(p.build())
    # header IDs that look like numbers (digits only, a sign, blanks inside): text all the same - left-justified in 65 characters
    for i, hid in enumerate(['20240131', '4711', '0', '-12', '12 34', '007', '1' * 65]):
        p = Prog(f'C09-digitid-{i}', {'kind': 'digitid'})
        p.file(1, vrl=512)
        how = ['kw', 'ready', 'set'][i % 3]
        if how == 'set':
            lf = p.lf(1, fh_id='PLACEHOLDER')
            p.set_header(lf, 'header_id', hid)
        else:
            lf = p.lf(1, fh_id=hid, **({'header': 'ready'} if how == 'ready' else {}))
        p.origin(lf, name='O')
        c = p.channel(lf, 'CH', data=np.arange(3, dtype='float64'))
        p.frame(lf, 'FR', [c])
        p.write(1)
        progs.append(p.build())
    # sequence numbers that are no positive integer of at most ten digits (keyword, ready-made header, assigned later): refused, or
    # the field still holds the decimal digits of the number
    for i, (seq, how) in enumerate([(True, 'kw'), (True, 'set'), (2.5, 'kw'), (2.5, 'set'), (-4, 'set'), (0, 'set'), (10 ** 10, 'set'), ('12', 'set'), (7.0, 'set'), (True, 'ready')]):
        p = Prog(f'C09-badseq-{i}', {'kind': 'badheaderseq', 'fringe': True, 'how': how})
        p.file(1, vrl=512)
        if how == 'kw':
            lf = p.lf(1, fh_id='BAD-SEQ', fh_seq=seq)
        elif how == 'ready':
            lf = p.lf(1, fh_id='BAD-SEQ', fh_seq=seq, header='ready')
        else:
            lf = p.lf(1, fh_id='BAD-SEQ')
            p.set_header(lf, 'sequence_number', seq)
        p.origin(lf, name='O')
        c = p.channel(lf, 'CH', data=np.arange(3, dtype='float64'))
        p.frame(lf, 'FR', [c])
        p.write(1, valid=False, either=True)
        progs.append(p.build())
    # header id / sequence number re-assigned on the header object: before the first write, between two writes, in the second of
    # two logical files, after the origin or before it
    for i in range(8):
        p = Prog(f'C09-reheader-{i}', {'kind': 'reheader'})
        p.file(1, vrl=512)
        lfs = []
        for k in range(1 + (i % 4 == 3)):
            lf = p.lf(1, lf=k + 1, fh_id=f'PROVISIONAL-{k}', fh_seq=k + 1)
            if i % 2 == 0:
                p.origin(lf, name='O')
            if i < 4 or k == 1:
                p.set_header(lf, 'header_id', ['WELL-7 RUN 2 (REPROCESSED)', 'X', rand_name(rng, 65), 'SECOND LF'][i % 4])
            if i % 2 == 1:
                p.origin(lf, name='O')
            c = p.channel(lf, 'CH', data=np.arange(3, dtype='float64'))
            p.frame(lf, 'FR', [c])
            lfs.append(lf)
        p.write(1, fname='first.dlis')
        if i >= 4:
            p.set_header(lfs[-1], 'header_id', f'FINAL ID {i}')
            p.set_header(lfs[-1], 'sequence_number', 40 + i)
        p.write(1, fname='second.dlis')
        progs.append(p.build())
    # every class once as the very first object of a logical file, the origin later
    for cls in [c for c in ORDER if c not in ('frame',)]:
        p = Prog(f'C09-first-{cls}', {'kind': 'firstclass', 'cls': cls})
        p.file(1)
        lf = p.lf(1, fh_id='FIRST-OBJECT')
        refs = {}
        add_all_classes(p, lf, rng, refs=refs, classes=[cls], pattern='none')
        rest = [c for c in rng.sample(ORDER, 5) if c != cls and c not in ('channel', 'frame')]
        add_all_classes(p, lf, rng, refs=refs, classes=rest, pattern='random')
        refs['ORIGIN'] = [p.origin(lf, name='LATE-ORIGIN')]
        if cls == 'channel':
            p.frame(lf, 'FR', refs['CHANNEL'])
        else:
            add_all_classes(p, lf, rng, refs=refs, classes=['channel', 'frame'], pattern='none')
        p.write(1)
        progs.append(p.build())
    n = 30 if tier == 'quick' else 300
    for i in range(n):
        p = Prog(f'C09-order-{i}', {'kind': 'order'})
        p.file(1, vrl=rng.choice([64, 256, 8192]))
        nlf = rng.choice([1, 1, 2, 3])
        for k in range(nlf):
            lf = p.lf(1, fh_id=f'LOGICAL-FILE-{k + 1}', fh_seq=k + 1)
            sfx = f'-{k + 1}' if nlf > 1 else None
            classes = rng.sample([c for c in ORDER if c not in ('channel', 'frame')], rng.randint(2, 8)) + ['channel', 'frame']
            origin_pos = rng.choice(['first', 'last', 'middle'])
            refs = {}
            if origin_pos == 'first':
                refs['ORIGIN'] = [p.origin(lf, name=f'ORIGIN{k}', fsn=k + 1, set_name=sfx)]
            order = [c for c in ORDER if c in classes and c not in ('channel', 'frame')]
            half = len(order) // 2
            order = order[:half] + ['channel', 'frame'] + order[half:] if rng.random() < 0.5 else ['channel', 'frame'] + order
            half = half + 2 if order[0] != 'channel' else 2
            add_all_classes(p, lf, rng, refs=refs, classes=order[:half], set_name=sfx, pattern='random')
            if origin_pos == 'middle':
                refs['ORIGIN'] = [p.origin(lf, name=f'ORIGIN{k}', fsn=k + 1, set_name=sfx)]
            add_all_classes(p, lf, rng, refs=refs, classes=order[half:], set_name=sfx, pattern='random')
            if origin_pos == 'last':
                refs['ORIGIN'] = [p.origin(lf, name=f'ORIGIN{k}', fsn=k + 1, set_name=sfx)]
            if rng.random() < 0.3:
                p.origin(lf, name=f'SECOND-ORIGIN{k}', fsn=99, set_name=sfx)
            if 'NO-FORMAT' in refs:
                p.nofmt(lf, refs['NO-FORMAT'][0], b'payload-' + bytes([k]))
        p.write(1, in_chunk=rng.choice([None, 1]))
        progs.append(p.build())
    progs += header_route_programs('C09')
    return progs


# ----------------------------------------------------------------------------------------------------------------------
# C11: data sources equivalent, window selects its rows
# ----------------------------------------------------------------------------------------------------------------------
def gen_C11(tier, seed):
    rng = rng_for('C11', tier, seed)
    progs = []
    n = 25 if tier == 'quick' else 300
    for i in range(n):
        rows = rng.choice([1, 2, 3, 5])
        nch = rng.randint(1, 3)
        arrays = []
        for c in range(nch):
            arrays.append(rand_array(rng, rng.choice(DTYPES), rows, rng.choice([None, None, 2])))
        windows = [(0, None)]
        if rows > 1:
            allw = [(a, b) for a in range(rows) for b in range(a + 1, rows + 1)]
            windows += rng.sample(allw, min(len(allw), 2 if tier == 'quick' else 4))
        for w, (frm, to) in enumerate(windows):
            plain = (i + w) % 2 == 0     # source holds exactly the frame's channels, in order, under the channel names
            p = Prog(f'C11-src-{i}-{w}', {'kind': 'sources', 'rows': rows, 'from': frm, 'to': -1 if to is None else to, 'plain': plain})
            # one DLISFile per route: the same specification, four ways of giving the data; plus the pre-sliced arrays
            for fid, route in enumerate(['inline', 'dict', 'struct', 'h5', 'presliced'], start=1):
                p.file(fid, vrl=256)
                lf = p.lf(fid, lf=fid, fh_id='SAME-FILE')
                p.origin(lf, name='O')
                chans, arrs = [], {}
                for c, a in enumerate(arrays):
                    if route == 'inline':
                        chans.append(p.channel(lf, f'CH{c}', data=a))
                    elif route == 'presliced':
                        chans.append(p.channel(lf, f'CH{c}', data=a[frm:to]))
                    else:
                        ds = {'dict': f'key{c}', 'struct': f'field{c}', 'h5': f'grp/sub/d{c}'}[route] if not plain else None
                        ch = p.channel(lf, f'CH{c}', dataset_name=ds)
                        chans.append(ch)
                        arrs[ch] = p.array(a)
                p.frame(lf, 'FR', chans)
                opts = {'in_chunk': rng.choice([None, 1, 2, rows + 1])}
                if route != 'presliced':
                    if frm:
                        opts['from'] = frm
                    if to is not None:
                        opts['to'] = to
                extras = None
                perm = None
                if route in ('dict', 'struct', 'h5') and not plain:
                    extras = {'unused_extra': p.array(rand_array(rng, 'float32', rows))}
                    perm = list(range(len(arrs) + 1))
                    rng.shuffle(perm)
                p.write(fid, route='none' if route in ('inline', 'presliced') else route, data_arrays=arrs, extras=extras,
                        perm=perm, fname=f'out{fid}.dlis', **opts)
            progs.append(p.build())
    # dataset names that cross the channel names (channel A reads data set B, channel B reads data set A; a rotation of three): the
    # structured source holds its fields in the order and under the names of the frame's channels, so that its dtype equals the target's
    for i in range(4 if tier == 'quick' else 24):
        nch = 2 + i % 2
        names = ['A', 'B', 'C'][:nch]
        dt = ['float64', 'int16', 'float32', 'uint8'][i % 4]
        wid = None if i % 4 < 2 else 2
        arrays = [rand_array(rng, dt, 5, wid) for _ in names]
        p = Prog(f'C11-crossmap-{i}', {'kind': 'crossmap'})
        for fid, route in enumerate(['inline', 'dict', 'struct', 'h5'], start=1):
            p.file(fid, vrl=256)
            lf = p.lf(fid, lf=fid, fh_id='CROSSED')
            p.origin(lf, name='O')
            chans, arrs = [], {}
            for c, nm in enumerate(names):
                ds = names[(c + 1) % nch]
                if route == 'inline':
                    chans.append(p.channel(lf, nm, data=arrays[c], dataset_name=ds))
                else:
                    ch = p.channel(lf, nm, dataset_name=ds)
                    chans.append(ch)
                    arrs[ch] = p.array(arrays[c])
            p.frame(lf, 'FR', chans)
            # the source lists its data sets in the order of the channel NAMES: data set A first (it belongs to the last channel)
            perm = [nch - 1] + list(range(nch - 1)) if route != 'inline' else None
            p.write(fid, route='none' if route == 'inline' else route, data_arrays=arrs, perm=perm, fname=f'out{fid}.dlis',
                    in_chunk=[None, 2][i % 2], **({'from': 1, 'to': 4} if i >= 2 else {}))
        progs.append(p.build())
    # inline arrays that are not C-contiguous, filled (or corrected) in place after the channel was created: the file is the one
    # written from a dict holding the final content
    for i in range(4 if tier == 'quick' else 24):
        p = Prog(f'C11-inplacelayout-{i}', {'kind': 'inplacelayout'})
        lay = ['strided', 'F', 'view', 'strided'][i % 4]
        dt = ['float64', 'int16', 'float32', 'uint16'][i % 4]
        first = [rand_array(rng, dt, 6), rand_array(rng, dt, 6, 2)]
        final = [rand_array(rng, dt, 6), rand_array(rng, dt, 6, 2)]
        kw = {'from': 2, 'to': 6} if i >= 2 else {}
        for fid, route in enumerate(['inline', 'dict'], start=1):
            p.file(fid, vrl=256)
            lf = p.lf(fid, lf=fid, fh_id='FILLED-LATER')
            p.origin(lf, name='O')
            if route == 'inline':
                ids = [p.array(a, lay) for a in first]
                chans = [p.channel(lf, f'CH{c}', data=ids[c]) for c in range(2)]
                p.frame(lf, 'FR', chans)
                if i % 2:
                    p.write(fid, fname='before.dlis', **kw)
                for c in range(2):
                    p.mutate_array(ids[c], final[c])
                p.write(fid, fname='out1.dlis', **kw)
            else:
                chans = [p.channel(lf, f'CH{c}') for c in range(2)]
                p.frame(lf, 'FR', chans)
                p.write(fid, route='dict', data_arrays={chans[c]: p.array(final[c]) for c in range(2)}, fname='out2.dlis', **kw)
        progs.append(p.build())
    progs += narrowcast_programs('C11', rng)
    # pathlib.Path objects for the output file and the HDF5 source
    for i in range(2):
        p = Prog(f'C11-paths-{i}', {'kind': 'paths'})
        a, b = rand_array(rng, 'float64', 5), rand_array(rng, 'int16', 5, 2)
        for fid, (route, as_path) in enumerate([('h5', True), ('h5', False), ('dict', True), ('inline', False)], start=1):
            p.file(fid, vrl=256)
            lf = p.lf(fid, lf=fid, fh_id='PATHS')
            p.origin(lf, name='O')
            if route == 'inline':
                ca, cb = p.channel(lf, 'A', data=a), p.channel(lf, 'B', data=b)
                arrs = {}
            else:
                ca, cb = p.channel(lf, 'A'), p.channel(lf, 'B')
                arrs = {ca: p.array(a), cb: p.array(b)}
            p.frame(lf, 'FR', [ca, cb])
            p.write(fid, route='none' if route == 'inline' else route, data_arrays=arrs, fname=f'o{fid}.dlis', as_path=as_path, in_chunk=[None, 2][i])
        progs.append(p.build())
    # two windows of the same DLISFile one after the other (evenly / unevenly spaced index): each file is the one written from
    # the pre-sliced arrays
    depth = np.array([10, 11, 12, 13, 14, 15, 17, 20, 24, 29, 35, 42], dtype='float64')
    for i in range(4 if tier == 'quick' else 16):
        p = Prog(f'C11-twowindows-{i}', {'kind': 'twowindows'})
        oth = rand_array(rng, 'int16', 12)
        wins = [(0, 6), (6, 12)] if i % 2 == 0 else [(6, 12), (0, 6)]
        route = ['dict', 'struct', 'h5', 'dict'][i % 4]

        def spec(fid, inline=None):
            p.file(fid, vrl=256)
            lf = p.lf(fid, lf=fid, fh_id='WINDOWS')
            p.origin(lf, name='O')
            if inline is None:
                ix, ot = p.channel(lf, 'INDEX'), p.channel(lf, 'OTHER')
            else:
                ix, ot = p.channel(lf, 'INDEX', data=inline[0]), p.channel(lf, 'OTHER', data=inline[1])
            p.frame(lf, 'FR', [ix, ot], index_type=EN('FrameIndexType', 'BOREHOLE_DEPTH'))
            return ix, ot
        ix, ot = spec(1)
        arrs = {ix: p.array(depth), ot: p.array(oth)}
        for j, (a_, b_) in enumerate(wins):
            p.write(1, route=route, data_arrays=arrs, fname=f'w{j}.dlis', in_chunk=[None, 4][i // 2 % 2], **{'from': a_, 'to': b_})
        for j, (a_, b_) in enumerate(wins):
            spec(10 + j, inline=(depth[a_:b_].copy(), oth[a_:b_].copy()))
            p.write(10 + j, fname=f'sliced{j}.dlis')
        progs.append(p.build())
    # a cast given at creation and changed (or cleared) before the write: inline data and write-time data are cast once, to
    # the dtype in force at the write
    casts = [('float64', 'float32', 'float64'), ('float64', 'float32', None), ('int32', 'uint8', 'int32'), ('int32', 'uint8', None),
             ('float64', 'int16', 'float32'), ('uint16', 'uint8', 'uint32'), ('float32', 'float64', None), ('int16', 'int8', 'int16')]
    for i, (src, first, final) in enumerate(casts if tier == 'thorough' else rng.sample(casts, 4)):
        p = Prog(f'C11-recast-{i}', {'kind': 'recast-inline', 'src': src, 'first': first, 'final': final})
        vals = np.array([0.1, 300.7, -2.5, 1e10, 70000.25, 255.5]) if src.startswith('float') else np.array([1, 300, 70000 % (2 ** 15), 255, 256, 77])
        a = vals.astype(src)
        if first in ('int16', 'int8', 'uint8') and src.startswith('float'):
            a = np.array([0.5, 30.7, -2.5, 100.0, 7.25, 25.5]).astype(src)        # casts numpy defines
        if first == 'int8':
            a = np.array([1, 100, -7, 127, -128, 77]).astype(src)
        b = rand_array(rng, 'float64', 6)
        for fid, route in ((1, 'inline'), (2, 'dict'), (3, 'struct')):
            p.file(fid, vrl=256)
            lf = p.lf(fid, lf=fid, fh_id='RECAST')
            p.origin(lf, name='O')
            arrs = {}
            if route == 'inline':
                ch = p.channel(lf, 'CH', data=a, cast=first)
                ix = p.channel(lf, 'IX', data=b)
            else:
                ch = p.channel(lf, 'CH', cast=first)
                ix = p.channel(lf, 'IX')
                arrs = {ch: p.array(a), ix: p.array(b)}
            p.frame(lf, 'FR', [ix, ch])
            p.set_cast(ch, final)
            p.write(fid, route='none' if route == 'inline' else route, data_arrays=arrs, fname=f'o{fid}.dlis')
        progs.append(p.build())
    # inline data and write-time data mixed (write-time data take precedence), two frames of different lengths, one window
    for i in range(8 if tier == 'quick' else 80):
        p = Prog(f'C11-mixed-{i}', {'kind': 'mixed'})
        r1, r2 = rng.choice([4, 6]), rng.choice([5, 9])
        for fid, variant in enumerate(['mixed', 'alldict'], start=1):
            p.file(fid, vrl=256)
            lf = p.lf(fid, lf=fid, fh_id='MIXED')
            p.origin(lf, name='O')
            arrs = {}
            a = [rand_array(rng, 'float64', r1), rand_array(rng, 'int16', r1, 2), rand_array(rng, 'float32', r2), rand_array(rng, 'uint8', r2)] if fid == 1 else a
            stale = rand_array(rng, 'float64', r1)
            chans = []
            for c, arr in enumerate(a):
                if variant == 'mixed' and c % 2 == 0:
                    ch = p.channel(lf, f'CH{c}', data=arr)
                elif variant == 'mixed' and c == 1:
                    ch = p.channel(lf, f'CH{c}', data=rand_array(rng, 'int16', r1, 2))     # overridden at write time
                    arrs[ch] = p.array(arr)
                else:
                    ch = p.channel(lf, f'CH{c}')
                    arrs[ch] = p.array(arr)
                chans.append(ch)
            p.frame(lf, 'FRAME-A', chans[:2])
            p.frame(lf, 'FRAME-B', chans[2:])
            opts = {'in_chunk': [None, 1, 3][i % 3]}
            if i % 2:
                opts.update({'from': 1, 'to': min(r1, r2) - 1})
            p.write(fid, route='dict', data_arrays=arrs, fname=f'o{fid}.dlis', **opts)
        progs.append(p.build())
    return progs


# ----------------------------------------------------------------------------------------------------------------------
# C13: frame index metadata
# ----------------------------------------------------------------------------------------------------------------------
def gen_C13(tier, seed):
    rng = rng_for('C13', tier, seed)
    progs = []
    seqs = [[0, 1, 2, 3], [3, 2, 1, 0], [5, 4, 3], [1, 1, 1], [0, 2, 1, 3], [10, 20, 30, 40, 50], [0, 1000, 2001, 3001],
            [7], [2, 4], [4, 2], [250, 252, 254], [0, 100, 200, 255], [1, 2, 4, 8], [8, 4, 2, 1], [0, 0, 1, 1], [3, 3, 2, 2]]
    k = 0
    for dt in DTYPES:
        info = None if dt.startswith('float') else np.iinfo(dt)
        for s in seqs if tier == 'thorough' else rng.sample(seqs, 8) + [[5, 4, 3], [250, 252, 254]]:
            if info is not None and (max(s) > info.max or min(s) < info.min):
                continue
            for indexed in (True, False):
                for user in ((None, 'min', 'spacing', 'all') if tier == 'thorough' else (None, rng.choice(['min', 'spacing', 'all']))):
                    k += 1
                    p = Prog(f'C13-idx-{k}', {'kind': 'index', 'dtype': dt, 'seq': s, 'indexed': indexed, 'user': user or ''})
                    lf, _ = base_lf(p)
                    a = np.array(s, dtype=dt)
                    idx = p.channel(lf, 'INDEX', data=a, units=rng.choice([None, EN('Unit', 'METER')]))
                    oth = p.channel(lf, 'OTHER', data=rand_array(rng, 'float32', len(s)))
                    kw = {}
                    if indexed:
                        kw['index_type'] = EN('FrameIndexType', 'BOREHOLE_DEPTH')
                    zero = (k % 3 == 0)      # user-supplied values that are falsy in Python are still the user's values
                    if user in ('min', 'all'):
                        kw['index_min'] = rng.choice([I(0), F(0.0)]) if zero else F(-5.0)
                    if user == 'all':
                        kw['index_max'] = I(0) if zero else I(99)
                        kw['direction'] = S('DECREASING')
                    if user in ('spacing', 'all'):
                        kw['spacing'] = rng.choice([I(0), F(0.0)]) if zero else F(0.25)
                    p.frame(lf, 'FR', [idx, oth], **kw)
                    opts = {}
                    if len(s) > 2 and rng.random() < 0.4:
                        opts = {'from': 1, 'to': len(s)}
                    p.write(1, **opts)
                    progs.append(p.build())
    # nearly uniform indexes: many equal steps and a few odd ones, inside / outside the documented tolerance (3.16 % of the median step);
    # an even number of steps with two middle values (the median is then k + 0.5); windows that cut the odd steps off
    def cum(steps, start=1000):
        out = [start]
        for d in steps:
            out.append(out[-1] + d)
        return out
    near = [cum([100] * 10 + [105]), cum([100] * 10 + [101]), cum([105] + [100] * 9 + [104]), cum([100, 100, 101, 101]),
            cum([-100] * 8 + [-106, -100]), cum([100, 101, 100, 101, 100, 103, 100]), cum([50] * 6 + [51, 52, 53]),
            cum([200, 200, 200, 200, 207]), cum([-100] * 9 + [-101, -102])]
    for i, sq in enumerate(near if tier == 'quick' else near * 3):
        dt = ['float64', 'int32', 'float32', 'int16', 'uint16'][i % 5]
        sq = [abs(v) % 30000 if dt in ('int16', 'uint16') else v for v in sq] if dt in ('int16', 'uint16') and (min(sq) < 0 or max(sq) > 30000) else sq
        for w, kw in enumerate([{}, {'from': 0, 'to': 9}, {'from': 3, 'to': len(sq)}]):
            if w and tier == 'quick' and (i + w) % 2:
                continue
            p = Prog(f'C13-nearuniform-{i}-{w}', {'kind': 'nearuniform', 'dtype': dt})
            lf, _ = base_lf(p)
            idx = p.channel(lf, 'INDEX', data=np.array(sq, dtype=dt))
            oth = p.channel(lf, 'OTHER', data=rand_array(rng, 'float32', len(sq)))
            p.frame(lf, 'FR', [idx, oth], index_type=EN('FrameIndexType', 'BOREHOLE_DEPTH'))
            p.write(1, **{k: min(v, len(sq)) for k, v in kw.items()})
            progs.append(p.build())
    # the index channel written through a cast that changes its values (float64 -> int16 / float32 -> int32 truncation): INDEX-MIN / MAX,
    # SPACING and DIRECTION are those of the rows written, not of the source values
    for i in range(4 if tier == 'quick' else 12):
        src = [np.array([0.6, 1.6, 2.6, 3.6, 4.6]), np.array([10.9, 8.2, 6.7, 4.1, 2.5]), np.array([100.5, 200.5, 300.5, 400.5]),
               np.array([7.9, 8.1, 9.9, 10.1, 11.9, 12.1])][i % 4]
        cast = ['int16', 'int32', 'uint16', 'int16'][i % 4]
        p = Prog(f'C13-castindex-{i}', {'kind': 'castindex', 'cast': cast})
        lf, _ = base_lf(p)
        route = ['inline', 'dict'][i % 2]
        if route == 'inline':
            idx = p.channel(lf, 'INDEX', data=src.astype('float64'), cast=cast)
            oth = p.channel(lf, 'OTHER', data=rand_array(rng, 'float32', len(src)))
            arrs = {}
        else:
            idx, oth = p.channel(lf, 'INDEX', cast=cast), p.channel(lf, 'OTHER')
            arrs = {idx: p.array(src.astype('float64')), oth: p.array(rand_array(rng, 'float32', len(src)))}
        p.frame(lf, 'FR', [idx, oth], index_type=EN('FrameIndexType', 'BOREHOLE_DEPTH'))
        p.write(1, route='none' if route == 'inline' else route, data_arrays=arrs, **({'from': 1, 'to': 4} if i >= 4 else {}))
        progs.append(p.build())
    # the user pins, after a write, the very value that write had derived (DIRECTION 'INCREASING' as a literal, INDEX-MIN as the float read
    # back from the attribute); the next write has other data: the user's value is written unchanged
    for i in range(4):
        p = Prog(f'C13-pinsame-{i}', {'kind': 'pinsame'})
        lf, _ = base_lf(p)
        up, down = np.array([1, 2, 4, 8, 16], dtype='float64'), np.array([90, 80, 60, 30, 10], dtype='float64')
        idx, oth = p.channel(lf, 'INDEX'), p.channel(lf, 'OTHER')
        fr = p.frame(lf, 'FR', [idx, oth], index_type=EN('FrameIndexType', 'BOREHOLE_DEPTH'))
        first, second = (up, down) if i % 2 == 0 else (down, up)
        o1 = p.array(rand_array(rng, 'int16', 5))
        p.write(1, route='dict', data_arrays={idx: p.array(first), oth: o1}, fname='w1.dlis')
        if i < 2:
            p.set(fr, 'direction', S('INCREASING' if i % 2 == 0 else 'DECREASING'))
        else:
            p.set(fr, 'index_min', F(float(first.min())))
            p.set(fr, 'index_max', F(float(first.max())))
        p.write(1, route='dict', data_arrays={idx: p.array(second), oth: o1}, fname='w2.dlis')
        progs.append(p.build())
    # the caller changes its inline arrays in place between two writes (same window): the statistics are those of the rows written
    for i in range(4 if tier == 'quick' else 16):
        p = Prog(f'C13-inplace-{i}', {'kind': 'inplace'})
        lf, _ = base_lf(p)
        first = np.array([1000, 1001, 1002, 1003, 1004, 1005], dtype='float64')
        second = np.array([2473, 2470, 2460, 2455, 2441, 2400], dtype='float64') if i % 2 == 0 else np.array([10, 13, 16, 19, 22, 25], dtype='float64')
        ia = p.array(first)
        idx = p.channel(lf, 'INDEX', data=ia)
        oth = p.channel(lf, 'OTHER', data=rand_array(rng, 'int16', 6))
        fr = p.frame(lf, 'FR', [idx, oth], **({'index_type': EN('FrameIndexType', 'BOREHOLE_DEPTH')} if i < 3 else {}))
        kw = {'from': 1, 'to': 5} if i % 4 >= 2 else {}
        p.write(1, fname='w1.dlis', **kw)
        p.mutate_array(ia, second)
        p.write(1, fname='w2.dlis', **kw)
        if i == 3:
            p.set(fr, 'index_type', EN('FrameIndexType', 'BOREHOLE_DEPTH'))
            p.write(1, fname='w3.dlis', **kw)
        progs.append(p.build())
    # several frames in one write (one logical file, or one frame in each of two logical files), indexed and row-numbered:
    # every frame carries the statistics of its own rows
    for i in range(6 if tier == 'quick' else 30):
        p = Prog(f'C13-multiframe-{i}', {'kind': 'multiframe'})
        p.file(1)
        nlf = 1 + i % 2
        for k in range(nlf):
            lf = p.lf(1, lf=k + 1, fh_id=f'LF{k}', fh_seq=k + 1)
            sn = f'S{k}'
            p.origin(lf, name=f'O{k}', fsn=k + 1, set_name=sn)
            for f in range(3 - nlf + 1):
                seq = [[0, 1, 2, 3], [50, 40, 30], [5, 7, 12, 13, 20], [9, 9, 9]][(i + f + k) % 4]
                ix = p.channel(lf, f'IX{f}', data=np.array(seq, dtype=['float64', 'int16', 'uint8', 'float32'][(i + f) % 4]), set_name=sn)
                ot = p.channel(lf, f'OT{f}', data=rand_array(rng, 'float32', len(seq)), set_name=sn)
                indexed = (i + f + k) % 3 != 2
                p.frame(lf, f'FR{f}', [ix, ot], set_name=sn, **({'index_type': EN('FrameIndexType', 'BOREHOLE_DEPTH')} if indexed else {}))
        p.write(1)
        if i % 3 == 0:
            p.write(1, fname='again.dlis')
        progs.append(p.build())
    # index values and differences beyond 2^31 (int32 / uint32 / float64 holding integers): the exact statistics are judged
    # on their IEEE images
    wides = [('int32', [-2000000000, 500000000]), ('int32', [2000000000, -2000000000]), ('int32', [-2147483648, 0, 2147483647]),
             ('int32', [-2000000000, 100, 2000000000]), ('int32', [2147483647, 2147483646, -2147483648]),
             ('uint32', [0, 4000000000]), ('uint32', [4000000000, 3000000000, 2000000000]), ('uint32', [4294967295, 0]),
             ('float64', [-3000000000.0, 0.0, 3000000000.0]), ('float64', [0.0, 4000000000.0, 4000000001.0]),
             ('int32', [1048576, 2097152, 3145728]), ('int16', [-32768, 32767])]
    for i, (dt, seq) in enumerate(wides):
        p = Prog(f'C13-wide-{i}', {'kind': 'wide', 'dtype': dt, 'seq': seq})
        lf, _ = base_lf(p)
        idx = p.channel(lf, 'INDEX', data=np.array(seq, dtype=dt))
        oth = p.channel(lf, 'OTHER', data=rand_array(rng, 'float32', len(seq)))
        p.frame(lf, 'FR', [idx, oth], index_type=EN('FrameIndexType', 'BOREHOLE_DEPTH'))
        p.write(1)
        if len(seq) > 2:
            p.write(1, fname='window.dlis', **{'from': 1, 'to': len(seq)})
        progs.append(p.build())
    # the same frame written for an evenly spaced window, then an unevenly spaced one (and the other way round): SPACING and
    # DIRECTION are those of the rows written, never those of the write before
    depth = np.array([10, 11, 12, 13, 14, 15, 17, 20, 24, 29, 35, 42], dtype='float64')
    for i in range(4 if tier == 'quick' else 16):
        p = Prog(f'C13-evenuneven-{i}', {'kind': 'evenuneven'})
        lf, _ = base_lf(p)
        d = depth if i % 4 < 2 else depth[::-1].copy()
        route = ['inline', 'dict'][i // 2 % 2] if tier == 'quick' else ['inline', 'dict', 'struct', 'h5'][(i // 4) % 4]
        oth = rand_array(rng, 'int16', 12)
        if route == 'inline':
            idx = p.channel(lf, 'INDEX', data=d)
            o2 = p.channel(lf, 'OTHER', data=oth)
            arrs = {}
        else:
            idx = p.channel(lf, 'INDEX')
            o2 = p.channel(lf, 'OTHER')
            arrs = {idx: p.array(d), o2: p.array(oth)}
        p.frame(lf, 'FR', [idx, o2], index_type=EN('FrameIndexType', 'BOREHOLE_DEPTH'))
        wins = [(0, 6), (6, 12)] if i % 2 == 0 else [(6, 12), (0, 6)]
        for j, (a_, b_) in enumerate(wins + [wins[0]]):
            p.write(1, route='none' if route == 'inline' else route, data_arrays=arrs, fname=f'w{j}.dlis', **{'from': a_, 'to': b_})
        progs.append(p.build())
    # sequences of writes of the same specification with different data / windows
    for i in range(8 if tier == 'quick' else 60):
        p = Prog(f'C13-rewrite-{i}', {'kind': 'rewrite'})
        lf, _ = base_lf(p)
        idx = p.channel(lf, 'INDEX')
        oth = p.channel(lf, 'OTHER')
        p.frame(lf, 'FR', [idx, oth], index_type=EN('FrameIndexType', 'BOREHOLE_DEPTH') if i % 2 == 0 else None)
        a1 = p.array(np.array([0, 1, 2, 3], dtype='float64'))
        a2 = p.array(np.array([100, 90, 80, 70, 60], dtype='float64'))
        b1 = p.array(rand_array(rng, 'int16', 4))
        b2 = p.array(rand_array(rng, 'int16', 5))
        p.write(1, route='dict', data_arrays={idx: a1, oth: b1}, fname='w1.dlis')
        if i % 3 == 0:
            p.write(1, route='dict', data_arrays={idx: a1, oth: b1}, fname='w2.dlis', **{'from': 1, 'to': 3})
        else:
            p.write(1, route='dict', data_arrays={idx: a2, oth: b2}, fname='w2.dlis')
        progs.append(p.build())
    # NaN in the index of an earlier write; the user pinning a value equal to the one derived before
    for i in range(6 if tier == 'quick' else 40):
        p = Prog(f'C13-rewrite2-{i}', {'kind': 'rewrite2'})
        lf, _ = base_lf(p)
        idx = p.channel(lf, 'INDEX')
        oth = p.channel(lf, 'OTHER')
        fr = p.frame(lf, 'FR', [idx, oth], index_type=EN('FrameIndexType', 'BOREHOLE_DEPTH'))
        full = np.array([1000, 1001, 1002, 1003, 1004, 1005], dtype='float64')
        a1 = p.array(full if i % 2 else np.array([1.0, float('nan'), 3.0, 4.0, 5.0, 6.0]))
        a2 = p.array(np.array([20, 21, 22, 23, 24, 25], dtype='float64') if i % 2 == 0 else full)
        b = p.array(rand_array(rng, 'int16', 6))
        p.write(1, route='dict', data_arrays={idx: a1, oth: b}, fname='w1.dlis')
        if i % 2:      # pin the whole-log range (= what the first write derived), then write a window
            p.set(fr, 'index_min', F(1000.0))
            p.set(fr, 'index_max', F(1005.0))
            if i % 4 == 1:
                p.set(fr, 'spacing', F(1.0))
            p.write(1, route='dict', data_arrays={idx: a2, oth: b}, fname='w2.dlis', **{'from': 2, 'to': 5})
        else:
            p.write(1, route='dict', data_arrays={idx: a2, oth: b}, fname='w2.dlis')
        progs.append(p.build())
    return progs


# ----------------------------------------------------------------------------------------------------------------------
# C18: isolation of frames and logical files
# ----------------------------------------------------------------------------------------------------------------------
def header_route_programs(pid):
    progs = []
    for i, mode in enumerate(['ready', 'shared_set', 'same_item', 'ready', 'shared_set']):
        p = Prog(f'{pid}-headers-{i}', {'kind': 'headers', 'mode': mode, 'fringe': mode == 'shared_set'})
        p.file(1)
        nlf = 2 + i // 3
        for k in range(nlf):
            extra = {} if k == 0 or mode == 'ready' else {'header_of': 1}
            same = mode == 'same_item' and k > 0
            lf = p.lf(1, lf=k + 1, fh_id=('HEADER-0' if same else f'HEADER-{k}'), fh_seq=(1 if same else k + 1),
                      header=('ready' if k == 0 else mode), **extra)
            sn = f'SET-{k}'
            p.origin(lf, name=f'O{k}', fsn=k + 1, set_name=sn)
            c = p.channel(lf, f'CH{k}', data=np.arange(3 + k, dtype='float64'), set_name=sn)
            p.frame(lf, f'FR{k}', [c], set_name=sn)
        p.write(1, valid=mode != 'shared_set', either=mode == 'shared_set')
        progs.append(p.build())
    # ... and a header set shared by the logical files of two different DLISFile objects (a storage set split over two files)
    for i in range(2):
        p = Prog(f'{pid}-headers-twofiles-{i}', {'kind': 'headers', 'mode': 'shared_set_two_files', 'fringe': True})
        for fid in (1, 2):
            p.file(fid, seq=fid)
            extra = {} if fid == 1 else {'header_of': 1}
            lf = p.lf(fid, lf=fid, fh_id=f'UNIT-{fid}', fh_seq=fid, header=('ready' if fid == 1 else 'shared_set'), **extra)
            p.origin(lf, name=f'O{fid}', fsn=fid)
            c = p.channel(lf, f'CH{fid}', data=np.arange(3, dtype='float64'))
            p.frame(lf, f'FR{fid}', [c])
        for fid in ((1, 2) if i == 0 else (2, 1)):
            p.write(fid, fname=f'unit{fid}.dlis', valid=False, either=True)
        progs.append(p.build())
    return progs


def gen_C18(tier, seed):
    rng = rng_for('C18', tier, seed)
    progs = []
    n = 30 if tier == 'quick' else 300
    for i in range(n):
        p = Prog(f'C18-lfs-{i}', {'kind': 'lfs'})
        nlf = rng.choice([1, 2, 2, 3])
        setmode = rng.choice(['distinct', 'distinct', 'default', 'partial']) if nlf > 1 else 'default'
        p.file(1, vrl=rng.choice([128, 8192]))
        seqs = list(range(1, nlf + 1))
        if i % 3 == 1:
            seqs = seqs[::-1]                       # header sequence numbers need not follow the creation order
        elif i % 3 == 2:
            seqs = [rng.choice([1, 2, 7, 40]) for _ in range(nlf)]
        lfs = [p.lf(1, fh_id=f'LF-NUMBER-{k + 1}', fh_seq=seqs[k]) for k in range(nlf)]
        plan = []      # interleave add_* calls between logical files
        per = {}
        for k, lf in enumerate(lfs):
            sn = {'distinct': f'SET-{k}', 'default': None, 'partial': (None if k == 0 else f'SET-{k}')}[setmode]
            osn = sn
            per[lf] = {'sn': sn, 'chans': [], 'k': k}
            plan.append(('origin', lf))
            nfr = rng.choice([1, 2])
            for f in range(nfr):
                for c in range(rng.randint(1, 3)):
                    plan.append(('chan', lf, f, c))
            for f in range(nfr):
                plan.append(('frame', lf, f))
            plan.append(('extra', lf))
        if rng.random() < 0.5:
            # keep per-lf order but interleave
            queues = {lf: [x for x in plan if x[1] == lf] for lf in lfs}
            plan = []
            while any(queues.values()):
                lf = rng.choice([l for l in lfs if queues[l]])
                plan.append(queues[lf].pop(0))
        frames = {}
        write_arrays = {}
        inline = rng.random() < 0.6
        for st in plan:
            lf = st[1]
            info = per[lf]
            if st[0] == 'origin':
                p.origin(lf, name=f'ORIGIN-{info["k"]}', fsn=info['k'] + 1, set_name=info['sn'])
            elif st[0] == 'chan':
                rows = 2 + st[2] + info['k']
                a = rand_array(rng, rng.choice(['float64', 'uint8', 'int32']), rows, rng.choice([None, 2]))
                nm = f'CH-{st[2]}-{st[3]}' if setmode != 'distinct' or rng.random() < 0.5 else f'CH-{info["k"]}-{st[2]}-{st[3]}'
                if inline:
                    ch = p.channel(lf, nm, data=a, set_name=info['sn'])
                else:
                    ch = p.channel(lf, nm, set_name=info['sn'], dataset_name=f'ds-{info["k"]}-{st[2]}-{st[3]}')
                    write_arrays[ch] = p.array(a)
                frames.setdefault((lf, st[2]), []).append(ch)
            elif st[0] == 'frame':
                p.frame(lf, f'FRAME-{st[2]}', frames[(lf, st[2])], set_name=info['sn'])
            elif st[0] == 'extra':
                z = p.add(lf, 'zone', 'ZONE', set_name=info['sn'], description=S(f'zone of lf {info["k"]}'))
                p.add(lf, 'parameter', 'PARAM', set_name=info['sn'], zones=L(R(z)), values=L(F(float(info['k']))))
                nf = p.add(lf, 'no_format', 'BLOB', set_name=info['sn'])
                p.nofmt(lf, nf, bytes([info['k']]) * 20)
        shared = setmode in ('default',) and nlf > 1
        p.write(1, route='none' if inline else 'dict', data_arrays=write_arrays, valid=not shared, either=shared,
                in_chunk=rng.choice([None, 1, 2]))
        p.meta['setmode'] = setmode
        p.meta['nlf'] = nlf
        p.meta['inline'] = inline
        progs.append(p.build())
    # ready-made file headers (the route the repository's tests use): own sets, one header set shared by two logical files
    # (rejected, or each file still opens with its own single header), the very same header item for two logical files
    progs += header_route_programs('C18')
    for i, mode in enumerate([]):
        p = Prog(f'C18-headers-{i}', {'kind': 'headers', 'mode': mode, 'fringe': mode == 'shared_set'})
        p.file(1)
        nlf = 2 + i // 3
        for k in range(nlf):
            extra = {} if k == 0 or mode == 'ready' else {'header_of': 1}
            same = mode == 'same_item' and k > 0
            lf = p.lf(1, lf=k + 1, fh_id=('HEADER-0' if same else f'HEADER-{k}'), fh_seq=(1 if same else k + 1),
                      header=('ready' if k == 0 else mode), **extra)
            sn = f'SET-{k}'
            p.origin(lf, name=f'O{k}', fsn=k + 1, set_name=sn)
            c = p.channel(lf, f'CH{k}', data=np.arange(3 + k, dtype='float64'), set_name=sn)
            p.frame(lf, f'FR{k}', [c], set_name=sn)
        p.write(1, valid=mode != 'shared_set', either=mode == 'shared_set')
        progs.append(p.build())
    # a set shared by two logical files (same class, same set name) while each file also has classes the other lacks, registered
    # before or after the shared one: refused, or written without cross-contamination
    k = 0
    for shared in ('parameter', 'zone', 'comment'):
        for a_extra in ((), ('axis',), ('axis', 'tool')):
            for b_extra in ((), ('zone',) if shared != 'zone' else ('message',), ('equipment', 'zone') if shared != 'zone' else ('equipment', 'message')):
                for early in (True, False):
                    k += 1
                    if tier == 'quick' and k % 3:
                        continue
                    p = Prog(f'C18-sharedmix-{k}', {'kind': 'sharedmix', 'fringe': True, 'shared': shared})
                    p.file(1)
                    for n, extra in enumerate((a_extra, b_extra)):
                        lf = p.lf(1, lf=n + 1, fh_id=f'LF{n}', fh_seq=n + 1)
                        sn = f'OWN-{n}'
                        p.origin(lf, name=f'O{n}', fsn=n + 1, set_name=sn)
                        c = p.channel(lf, f'CH{n}', data=np.arange(3, dtype='float64'), set_name=sn)
                        p.frame(lf, f'FR{n}', [c], set_name=sn)
                        if early:
                            for cls in extra:
                                p.add(lf, cls, f'EXTRA-{cls}-{n}'.upper(), set_name=sn)
                        p.add(lf, shared, f'SHARED-{n}')            # the default set name in both logical files
                        if not early:
                            for cls in extra:
                                p.add(lf, cls, f'EXTRA-{cls}-{n}'.upper(), set_name=sn)
                    p.write(1, valid=False, either=True)
                    progs.append(p.build())
    # the empty string as a set name next to the default (None) set of the same class, in one logical file or in two
    for i in range(4):
        p = Prog(f'C18-emptysetname-{i}', {'kind': 'emptysetname', 'fringe': True})
        p.file(1)
        for k in range(1 + i % 2):
            lf = p.lf(1, lf=k + 1, fh_id=f'LF{k}', fh_seq=k + 1)
            sn = f'OWN-{k}'
            p.origin(lf, name=f'O{k}', fsn=k + 1, set_name=sn)
            c = p.channel(lf, f'CH{k}', data=np.arange(3, dtype='float64'), set_name=sn)
            p.frame(lf, f'FR{k}', [c], set_name=sn)
            if k == 0:
                first, second = ('', None) if i < 2 else (None, '')
                p.add(lf, 'zone', 'Z-ONE-A', set_name=first, description=S('first'))
                st = p.add(lf, 'zone', 'Z-ONE-B', description=S('second'))
                if second == '':
                    p.steps[-1]['set_name'] = ''
                p.add(lf, 'parameter', 'P-ONE', set_name=sn)
            else:
                p.add(lf, 'zone', 'Z-TWO', description=S('of the second logical file'))      # default set: shared with LF0's None set
        p.write(1, valid=False, either=True)
        progs.append(p.build())
    # one channel set per frame, the same channel names in each (distinguished by their origins): every frame has its own rows
    for i in range(6 if tier == 'quick' else 40):
        p = Prog(f'C18-framesets-{i}', {'kind': 'framesets'})
        p.file(1)
        nlf = 1 + i % 2
        for k in range(nlf):
            lf = p.lf(1, lf=k + 1, fh_id=f'LF-{k}', fh_seq=k + 1)
            nfr = 2 + (i // 2) % 2
            for f in range(nfr):
                p.origin(lf, name=f'ORIGIN-{k}-{f}', fsn=f + 1, set_name=f'OSET-{k}', origin_reference=10 * (k + 1) + f)
            order = list(range(nfr)) if i % 3 else list(range(nfr))[::-1]
            for f in order:
                rows = [6, 4, 9][(f + i) % 3]
                sn = f'FRAMESET-{k}-{f}'
                ref = 10 * (k + 1) + f
                d = p.channel(lf, 'DEPTH', data=np.arange(rows, dtype='float64') + 100 * (f + 1) + 1000 * k, set_name=sn, origin_reference=ref)
                r = p.channel(lf, 'RPM', data=rand_array(rng, 'float32', rows), set_name=sn, origin_reference=ref)
                p.frame(lf, f'FRAME-{f}', [d, r], set_name=sn, origin_reference=ref)
        p.write(1, in_chunk=[None, 2][i % 2])
        progs.append(p.build())
    progs += foreign_reference_programs('C18')
    return progs


def _with_repo(pid, gen):
    def g(tier, seed):
        return gen(tier, seed) + repo_fixture_programs(pid, rng_for(pid + '-repo', tier, seed), rows=5 if tier == 'quick' else 12)
    return g


for _pid in ('C03', 'C04', 'C05', 'C07', 'C08', 'C09'):
    globals()['gen_' + _pid] = _with_repo(_pid, globals()['gen_' + _pid])

GENERATORS2 = {'C03': gen_C03, 'C04': gen_C04, 'C05': gen_C05, 'C07': gen_C07, 'C08': gen_C08, 'C09': gen_C09, 'C11': gen_C11,
               'C13': gen_C13, 'C18': gen_C18, 'C19': gen_C19}
