"""./selftest [traces|guard|models|seeds]...   Demonstrates that the specification is bound to the code.

Not a registered check.  Every part must print OK; anything else is a defect of the machinery.
 traces  one field of a recorded trace is corrupted at a time: TLC must name the expected clause
 guard   with the hook guard off a check must end with exit code 2 (machinery), never 0
 models  one constant / operator of a model copy is changed: the model invariant must fail
 seeds   every /verif/seeded/*/patch.diff is applied to a scratch copy of the repository sources
         (selected with VERIF_REPO, outside /repo and /verif): the check of the seeded property must exit 1
"""
import copy
import json
import os
import shutil
import subprocess
import sys
import tempfile

HERE = os.path.dirname(os.path.abspath(__file__))
sys.path.insert(0, HERE)
import lib  # noqa: E402

VERIF = lib.VERIF
failures = []


def say(ok, what):
    print(('OK   ' if ok else 'FAIL ') + what, flush=True)
    if not ok:
        failures.append(what)


def part_traces():
    import numpy as np
    import driver
    import validate
    from build import EN, F, I, L, R, S, Prog
    p = Prog('st-base')
    p.file(1, vrl=64)
    lf = p.lf(1, fh_id='SELFTEST')
    p.origin(lf, name='ORIGIN', company=S('ACME'))
    c1 = p.channel(lf, 'DEPTH', data=np.arange(4, dtype='float64'), units=S('m'))
    c2 = p.channel(lf, 'DUP', data=np.arange(8, dtype='int16').reshape(4, 2))
    p.frame(lf, 'FRAME', [c1, c2], index_type=EN('FrameIndexType', 'BOREHOLE_DEPTH'))
    z = p.add(lf, 'zone', 'ZONE', description=S('a zone'))
    p.add(lf, 'parameter', 'PARAM', zones=L(R(z)), values=L(F(2.5)))
    nf = p.add(lf, 'no_format', 'NOFMT')
    p.nofmt(lf, nf, b'payload bytes')
    p.write(1, watch=True, out_chunk=64)
    q = Prog('st-low')
    q.low(32, [{'eflr': True, 'type': 3, 'len': 53}, {'eflr': False, 'type': 0, 'len': 7}], out_chunk=34, watch_disk=True)
    base, low = driver.run_batch([p.build(), q.build()])
    v, _ = validate.validate([base, low])
    say(v['st-base']['clauses'] == [] and v['st-low']['clauses'] == [], 'uncorrupted traces are accepted')

    def wr(t):
        return [e for e in t['events'] if e['op'] in ('write', 'lowwrite')][0]

    cases = []

    def corrupt(name, src, fn, expect):
        t = copy.deepcopy(src)
        t['id'] = name
        fn(t)
        cases.append((t, expect))

    corrupt('len-byte', low, lambda t: wr(t)['file']['bytes'].__setitem__(85, wr(t)['file']['bytes'][85] + 1), 'C01.')
    corrupt('pad-count', low, lambda t: wr(t)['file']['bytes'].__setitem__(len(wr(t)['file']['bytes']) - 1, 200), 'C01.SegPadCount')
    corrupt('tap-body', low, lambda t: wr(t)['file']['tap'][0]['body'].__setitem__(5, 0), 'C02.RecordOrderBody')
    corrupt('given-type', low, lambda t: wr(t)['recs'][1].__setitem__('type', 1), 'C02.RecordOrderBody')
    corrupt('attr-bit', low, lambda t: wr(t)['file']['bytes'].__setitem__(86, wr(t)['file']['bytes'][86] | 4), 'C01.SegNoChecksum')
    corrupt('flush-total', low, lambda t: wr(t)['file']['flushes'][-1].__setitem__('total', 7), 'C10.SizeReported')
    corrupt('flush-disk', low, lambda t: wr(t)['file']['flushes'][1]['disk'].pop(), 'C10.Flush')
    corrupt('label-maxlen', base, lambda t: wr(t)['file']['bytes'].__setitem__(19, 53), 'C01.SulMaxLen')
    corrupt('slot-byte', base, lambda t: wr(t)['frames'][0]['rows'][1][1].__setitem__(0, 99), 'C03.SlotBytes')
    corrupt('row-missing', base, lambda t: wr(t)['frames'][0]['rows'].pop(), 'C03.FdataCount')
    corrupt('chan-code', base, lambda t: wr(t)['frames'][0]['chans'][1].__setitem__('code', 14), 'C08.ChannelReprCode')
    corrupt('attr-value', base, lambda t: [e for e in t['events'] if e['op'] == 'add' and e['cls'] == [90, 79, 78, 69]][0]['attrs'][0]['val'][0]['s'].append(33), 'C05.AttrValue')
    corrupt('obj-name', base, lambda t: [e for e in t['events'] if e['op'] == 'add' and e['cls'] == [90, 79, 78, 69]][0]['name'].append(33), 'C05.ObjectPresent')
    corrupt('nofmt-payload', base, lambda t: [e for e in t['events'] if e['op'] == 'nofmt_data'][0]['payload'].append(0), 'C16.NofmtPayload')
    corrupt('caller', base, lambda t: wr(t)['caller']['after'][0]['b'].__setitem__(0, 77), 'C19.CallerDataUnchanged')
    corrupt('flag', base, lambda t: t['events'][3].__setitem__('hc', True), 'C17.FlagDiscipline')
    corrupt('header-id', base, lambda t: [e for e in t['events'] if e['op'] == 'add_lf'][0]['fh_id'].append(88), 'C09.HeaderId')
    corrupt('index-vals', base, lambda t: wr(t)['frames'][0]['index']['vals'][0].__setitem__('lo', 2), 'C13.IndexMin')
    # the user's choice of an origin reference (Canon) against the origin field written
    corrupt('origin-choice', base, lambda t: [e for e in t['events'] if e['op'] == 'add' and e['cls'] == [90, 79, 78, 69]][0].__setitem__('origin', 3), 'C07.OriginChosen')
    # a wide integer index: the recorded image of the exact minimum
    w = Prog('st-wide')
    wl = w.lf(w.file(1, vrl=8192), fh_id='WIDE')
    w.origin(wl, name='ORIGIN')
    wi = w.channel(wl, 'INDEX', data=np.array([-2000000000, 500000000], dtype='int32'))
    w.frame(wl, 'FRAME', [wi], index_type=EN('FrameIndexType', 'BOREHOLE_DEPTH'))
    w.write(1)
    wide = driver.run_batch([w.build()])[0]
    cases.append((copy.deepcopy(wide), ''))
    corrupt('wide-min', wide, lambda t: wr(t)['frames'][0]['index']['wide']['min'].__setitem__(7, 1), 'C13.IndexMin')
    corrupt('wide-diff', wide, lambda t: wr(t)['frames'][0]['index']['wide']['dimg'][0].__setitem__(7, 1), 'C13.SpacingValue')
    # a no-format payload replaced after the record was added
    n2 = copy.deepcopy(base)
    n2['id'] = 'st-replace'
    k = [i for i, e in enumerate(n2['events']) if e['op'] == 'nofmt_data'][0]
    n2['events'].insert(k + 1, {'op': 'nofmt_replace', 'idx': 1, 'kind': 'bytes', 'payload': [1, 2, 3], 'outcome': 'ok', 'hc': False, 'proc': 1})
    cases.append((n2, 'C16.NofmtPayload'))
    v, _ = validate.validate([c[0] for c in cases])
    for t, expect in cases:
        if expect == '':
            say(v[t['id']]['clauses'] == [], f"uncorrupted trace '{t['id']}' is accepted (got {v[t['id']]['clauses'][:3]})")
            continue
        got = [c for c, _ in v[t['id']]['clauses']]
        say(any(g.startswith(expect) for g in got), f"corrupted field '{t['id']}' is rejected with {expect}* (got {sorted(set(got))[:4]})")


def part_guard():
    env = dict(os.environ, WELL_ID_DLISWRITER_VERIF='0')
    r = subprocess.run(['/venv/bin/python', os.path.join(HERE, 'check.py'), 'C16', '--tier', 'quick'], cwd=VERIF, env=env,
                       capture_output=True, text=True)
    say(r.returncode == 2 and 'MACHINERY-ERROR' in r.stdout, f'guard off -> exit 2 (got {r.returncode})')


MODEL_MUTANTS = [
    ('Segmenter.tla', 'n0 - (12 - f0)', 'n0 - (11 - f0)', 'MC_Segmenter.tla', 'MC_Segmenter_quick.cfg', 'FinalWellFormed'),
    ('Segmenter.tla', 'IF len0 + pad0 < 16 THEN 16 - len0 ELSE pad0', 'pad0', 'MC_Segmenter.tla', 'MC_Segmenter_quick.cfg', 'FinalWellFormed'),
    ('Segmenter.tla', 'IF Len(buf) + size > bufSize', 'IF Len(buf) + size >= bufSize + 4', 'MC_Segmenter.tla', 'MC_Segmenter_quick.cfg', 'BufferBounded'),
    ('Segmenter.tla', 'disk\'   = IF append THEN disk \\o bts ELSE bts', 'disk\'   = IF append /\\ nflush # 2 THEN disk \\o bts ELSE bts', 'MC_Segmenter.tla', 'MC_Segmenter_quick.cfg', 'ChunkInvisible'),
    ('FrameIndex.tla', None, None, 'FrameIndex.tla', 'MC_FrameIndex_quick.cfg', 'SpacingTruthful'),     # Wrap = 256 in the cfg
    ('FrameIndex.tla', 'IF ~s[n].set /\\ x.has THEN', 'IF (~s[n].set \\/ s[n].v = 0) /\\ x.has THEN', 'FrameIndex.tla', 'MC_FrameIndex_quick.cfg', 'UserValueKept'),
    ('DlisModel.tla', 'IF i \\in mine /\\ items[i].origin = NoOrigin', 'IF items[i].origin = NoOrigin', 'DlisModel.tla', 'MC_DlisModel_quick.cfg', 'OriginResolves'),
    ('DlisModel.tla', 'ELSE reg\' = reg1 /\\ items\' = items /\\ view\' = view', 'ELSE reg\' = reg1 /\\ items\' = items /\\ view\' = ViewWith(lf, key)', 'DlisModel.tla', 'MC_DlisModel_quick.cfg', 'RejectedIsNoOp'),
    ('DlisModel.tla', 'hc\' = [flag |-> hc.stack[Len(hc.stack)], stack', 'hc\' = [flag |-> (IF byexc THEN TRUE ELSE hc.stack[Len(hc.stack)]), stack', 'DlisModel.tla', 'MC_DlisModel_quick.cfg', 'FlagDiscipline'),
    ('DlisModel.tla', 'Announced == SumLen(view)', 'Announced == Len(items)', 'DlisModel.tla', 'MC_DlisModel_quick.cfg', 'ProgressTotalCovers'),
    ('DataSource.tla', 'TakenFast == kind = "fast" /\\ (CheckMapping => ~crossed)', 'TakenFast == kind = "fast"', 'DataSource.tla', 'MC_DataSource_quick.cfg', 'MappingHonoured'),
    ('DataSource.tla', '(CheckShort /\\ total2 < ToIdx)', '(CheckShort /\\ total2 < ToIdx - 1)', 'DataSource.tla', 'MC_DataSource_quick.cfg', 'SecondColumn'),
    ('DataSource.tla', 'ChunkRows(start, stop) == [k \\in 1..(stop - start) |-> from + start + k - 1]',
     'ChunkRows(start, stop) == [k \\in 1..(stop - start) |-> (IF kind = "fast" THEN 0 ELSE from) + start + k - 1]', 'DataSource.tla', 'MC_DataSource_quick.cfg', 'InOrder'),
    ('MC_DataSource_quick.cfg', 'CheckBounds = TRUE', 'CheckBounds = FALSE', 'DataSource.tla', 'MC_DataSource_quick.cfg', 'WindowRows'),
    ('MC_DlisModel_mut.cfg', 'CopyRule = "firstfree"', 'CopyRule = "count"', 'DlisModel.tla', 'MC_DlisModel_mut.cfg', 'CopyNumbersDistinct'),
    ('MC_CacheModel.cfg', 'BypassDtime = TRUE', 'BypassDtime = FALSE', 'CacheModel.tla', 'MC_CacheModel.cfg', 'HistoryIndependent'),
    ('AttrEncoder.tla', 'hasVal  == ~(stored.list /\\ stored.n = 0)', 'hasVal  == TRUE', 'AttrEncoder.tla', 'MC_AttrEncoder.cfg', 'GrammarOk'),
    ('ChannelDims.tla', 'IF dim # d /\\ dim # << >> THEN pc\' = "raised"', 'IF FALSE /\\ dim # d THEN pc\' = "raised"', 'ChannelDims.tla', 'MC_ChannelDims.cfg', 'Contradiction'),
    ('RP66Prim.tla', 'IF n < 128 THEN << n >>', 'IF n <= 128 THEN << n >>', 'PrimModel.tla', 'PrimModel_quick.cfg', 'RoundTrip'),
]


def part_cache_switches():
    for sw in ('Typed = TRUE/Typed = FALSE', 'BypassFloat = TRUE/BypassFloat = FALSE', 'BypassDtime = TRUE/BypassDtime = FALSE', 'BypassRef = TRUE/BypassRef = FALSE',
               'Invalidate = TRUE/Invalidate = FALSE', 'MarkDerived = TRUE/MarkDerived = FALSE', 'KeepData = FALSE/KeepData = TRUE'):
        d = tempfile.mkdtemp(prefix='stspec', dir='/tmp')
        try:
            for f in os.listdir(lib.SPEC):
                if os.path.isfile(os.path.join(lib.SPEC, f)):
                    shutil.copy(os.path.join(lib.SPEC, f), d)
            a, b = sw.split('/')
            p = os.path.join(d, 'MC_CacheModel.cfg')
            txt = open(p).read().replace(a, b)
            open(p, 'w').write(txt)
            r = lib.run_tlc('CacheModel.tla', 'MC_CacheModel.cfg', cwd=d, workers=8, coverage=False, timeout=600, heap='4g')
            say('HistoryIndependent' in r['violated'], f"CacheModel with the historical behaviour '{b}': HistoryIndependent fails (violated: {r['violated']})")
        finally:
            shutil.rmtree(d, ignore_errors=True)


def part_history_switches():
    """WriteHistory: every implementation switch set to the historical / seeded behaviour breaks an invariant."""
    for sw, expect in (('Typed = TRUE/Typed = FALSE', 'HistoryIndependent'), ('BypassFloat = TRUE/BypassFloat = FALSE', 'HistoryIndependent'),
                       ('BypassRef = TRUE/BypassRef = FALSE', 'HistoryIndependent'), ('Invalidate = TRUE/Invalidate = FALSE', 'HistoryIndependent'),
                       ('MarkDerived = TRUE/MarkDerived = FALSE', 'HistoryIndependent'),
                       ('FlagAfterValidation = TRUE/FlagAfterValidation = FALSE', 'RejectedIsNoOp'),
                       ('SameCastShortcut = FALSE/SameCastShortcut = TRUE', 'HistoryIndependent'),
                       ('DerivedByIdentity = TRUE/DerivedByIdentity = FALSE', 'HistoryIndependent'),
                       ('GuessEachTime = TRUE/GuessEachTime = FALSE', 'HistoryIndependent'), ('CountLive = TRUE/CountLive = FALSE', 'NoStaleCount'),
                       ('LabelLive = TRUE/LabelLive = FALSE', 'HistoryIndependent'), ('PayloadLive = TRUE/PayloadLive = FALSE', 'HistoryIndependent'),
                       ('FileIdFollowsHeader = TRUE/FileIdFollowsHeader = FALSE', 'HistoryIndependent'),
                       ('DimFollowsData = TRUE/DimFollowsData = FALSE', 'HistoryIndependent')):
        d = tempfile.mkdtemp(prefix='stspec', dir='/tmp')
        try:
            for f in os.listdir(lib.SPEC):
                if os.path.isfile(os.path.join(lib.SPEC, f)):
                    shutil.copy(os.path.join(lib.SPEC, f), d)
            a, b = sw.split('/')
            p = os.path.join(d, 'MC_WriteHistory_quick.cfg')
            txt = open(p).read().replace('  ' + a, '  ' + b)
            open(p, 'w').write(txt)
            r = lib.run_tlc('WriteHistory.tla', 'MC_WriteHistory_quick.cfg', cwd=d, workers=8, coverage=False, timeout=600, heap='4g')
            say(expect in r['violated'], f"WriteHistory with '{b}': {expect} fails (violated: {r['violated']})")
        finally:
            shutil.rmtree(d, ignore_errors=True)


def part_defaults_switches():
    """DerivedDefaults: every switch in its historical position (F30 / F36 / F37 before their repair, and the incomplete
    repairs that compared values: F38) breaks HistoryIndependent."""
    for sw in ('LongFollows = TRUE/LongFollows = FALSE', 'LongMark = TRUE/LongMark = FALSE', 'DimFollows = TRUE/DimFollows = FALSE',
               'DimMark = TRUE/DimMark = FALSE', 'LimMark = TRUE/LimMark = FALSE', 'LimKeepsGiven = TRUE/LimKeepsGiven = FALSE',
               'ParFollows = TRUE/ParFollows = FALSE'):
        d = tempfile.mkdtemp(prefix='stspec', dir='/tmp')
        try:
            for f in os.listdir(lib.SPEC):
                if os.path.isfile(os.path.join(lib.SPEC, f)):
                    shutil.copy(os.path.join(lib.SPEC, f), d)
            a, b = sw.split('/')
            p = os.path.join(d, 'MC_DerivedDefaults_quick.cfg')
            txt = open(p).read().replace('  ' + a, '  ' + b)
            open(p, 'w').write(txt)
            r = lib.run_tlc('DerivedDefaults.tla', 'MC_DerivedDefaults_quick.cfg', cwd=d, workers=8, coverage=False, timeout=600, heap='4g')
            say('HistoryIndependent' in r['violated'], f"DerivedDefaults with '{b}': HistoryIndependent fails (violated: {r['violated']})")
        finally:
            shutil.rmtree(d, ignore_errors=True)


def part_dlismodel_switches():
    """DlisModel (reference configuration): without the write-time checks the model reproduces F22 / F23."""
    for sw, expect in (('ForeignRefCheck = TRUE/ForeignRefCheck = FALSE', 'RefResolves'), ('HeaderSetCheck = TRUE/HeaderSetCheck = FALSE', 'HeaderOwn')):
        d = tempfile.mkdtemp(prefix='stspec', dir='/tmp')
        try:
            for f in os.listdir(lib.SPEC):
                if os.path.isfile(os.path.join(lib.SPEC, f)):
                    shutil.copy(os.path.join(lib.SPEC, f), d)
            a, b = sw.split('/')
            p = os.path.join(d, 'MC_DlisModel_refs.cfg')
            txt = open(p).read().replace('  ' + a, '  ' + b)
            open(p, 'w').write(txt)
            r = lib.run_tlc('DlisModel.tla', 'MC_DlisModel_refs.cfg', cwd=d, workers=8, coverage=False, timeout=900, heap='4g')
            say(expect in r['violated'], f"DlisModel with '{b}': {expect} fails (violated: {r['violated']})")
        finally:
            shutil.rmtree(d, ignore_errors=True)


def part_models():
    part_cache_switches()
    part_history_switches()
    part_defaults_switches()
    part_dlismodel_switches()
    for fname, old, new, module, cfg, expect in MODEL_MUTANTS:
        d = tempfile.mkdtemp(prefix='stspec', dir='/tmp')
        try:
            for f in os.listdir(lib.SPEC):
                if os.path.isfile(os.path.join(lib.SPEC, f)):
                    shutil.copy(os.path.join(lib.SPEC, f), d)
            if old is None:
                p = os.path.join(d, cfg)
                s = open(p).read().replace('Wrap = 0', 'Wrap = 256')
                open(p, 'w').write(s)
            else:
                p = os.path.join(d, fname)
                s = open(p).read()
                if old not in s:
                    say(False, f'model mutant: pattern not found in {fname}: {old[:40]}')
                    continue
                open(p, 'w').write(s.replace(old, new, 1))
            r = lib.run_tlc(module, cfg, cwd=d, workers=16, coverage=False, timeout=1200, heap='8g')
            say(bool(r['violated']),
                f"model mutant {fname}: '{(old or 'Wrap = 0')[:45]}' -> an invariant fails (expected {expect}; violated: {r['violated']})")
        finally:
            shutil.rmtree(d, ignore_errors=True)


def part_seeds(only=None):
    seeds = sorted(os.listdir(os.path.join(VERIF, 'seeded')))
    for s in seeds:
        sd = os.path.join(VERIF, 'seeded', s)
        if not os.path.exists(os.path.join(sd, 'meta.json')) or (only and s not in only):
            continue
        meta = json.load(open(os.path.join(sd, 'meta.json')))
        if meta.get('superseded'):
            print(f"SKIP seed {s}: {meta['superseded'][:110]}...")
            continue
        d = tempfile.mkdtemp(prefix='stseed', dir='/tmp')
        try:
            subprocess.run(['git', '-C', lib.REPO, 'worktree', 'add', '--detach', os.path.join(d, 'wt'), 'HEAD'], capture_output=True)
            wt = os.path.join(d, 'wt')
            a = subprocess.run(['git', '-C', wt, 'apply', os.path.join(sd, 'patch.diff')], capture_output=True, text=True)
            if a.returncode != 0:
                say(False, f'seed {s}: patch does not apply: {a.stderr[:200]}')
                continue
            env = dict(os.environ, VERIF_REPO=wt, VERIF_EVIDENCE_DIR=os.path.join(d, 'evidence'))
            r = subprocess.run(['/venv/bin/python', os.path.join(HERE, 'check.py'), meta['breaks_property'], '--tier', 'quick'],
                               cwd=VERIF, env=env, capture_output=True, text=True)
            nviol = r.stdout.count('VIOLATION property=' + meta['breaks_property'])
            say(r.returncode == 1 and nviol > 0, f"seed {s}: ./check {meta['breaks_property']} exits {r.returncode} with {nviol} VIOLATION line(s)")
        finally:
            subprocess.run(['git', '-C', lib.REPO, 'worktree', 'remove', '--force', os.path.join(d, 'wt')], capture_output=True)
            shutil.rmtree(d, ignore_errors=True)


if __name__ == '__main__':
    parts = sys.argv[1:] or ['traces', 'guard', 'models', 'seeds']
    os.environ.setdefault('WELL_ID_DLISWRITER_VERIF', '1')
    if 'traces' in parts:
        part_traces()
    if 'guard' in parts:
        part_guard()
    if 'models' in parts:
        part_models()
    if 'seeds' in parts:
        part_seeds([p for p in parts if p.startswith('C')] or None)
    print(f'selftest: {len(failures)} failure(s)')
    sys.exit(1 if failures else 0)
