"""Per-property wiring: which models are checked, how scenarios count as non-trivial, drift checks."""
import json
import os
from concurrent.futures import ThreadPoolExecutor

import lib
from lib import SPEC, MachineryError, extract_prints, new_run_dir, rm_run_dir, run_tlc
from histreplay import (defaults_drift, defaults_failing_programs, defaults_programs, writehist_drift, writehist_programs,
                        writehist_rejecting_programs)
from modelreplay import dlismodel_drift, dlismodel_mut_programs, dlismodel_programs, dlismodel_ref_programs

SEG_ACTIONS = ['Segmenter.WriteSUL', 'Segmenter.BeginRecord', 'Segmenter.SegmentStep', 'Segmenter.Emit', 'Segmenter.FinalFlush']
# unbounded obligation (Apalache): the split arithmetic keeps its inductive invariant for every capacity >= 12 and every length
A_SEG = {'name': 'SegArith', 'module': 'SegArith.tla', 'obligations': [('Init', 'IndInv', 0), ('IndInit', 'IndInv', 1)]}
M_SEG = {'name': 'Segmenter', 'module': 'MC_Segmenter.tla', 'apalache': A_SEG,
         'cfg': {'quick': 'MC_Segmenter_quick.cfg', 'thorough': 'MC_Segmenter_thorough.cfg'},
         'must_cover': SEG_ACTIONS, 'timeout': {'quick': 900, 'thorough': 7200}}


M_DLIS = {'name': 'DlisModel', 'module': 'DlisModel.tla',
          'cfg': {'quick': 'MC_DlisModel_quick.cfg', 'thorough': 'MC_DlisModel_thorough.cfg'},
          'must_cover': ['DlisModel.AddLogicalFile', 'DlisModel.AddOrigin', 'DlisModel.AddItem', 'DlisModel.EnterHC', 'DlisModel.LeaveHC'],
          'timeout': {'quick': 900, 'thorough': 7200}}


M_DLISREF = {'name': 'DlisModelRefs', 'module': 'DlisModel.tla',
             'cfg': {'quick': 'MC_DlisModel_refs.cfg', 'thorough': 'MC_DlisModel_refs_thorough.cfg'},
             'must_cover': ['DlisModel.AddLogicalFile', 'DlisModel.AddOrigin', 'DlisModel.AddItem'],
             'timeout': {'quick': 900, 'thorough': 7200}}


M_DLISMUT = {'name': 'DlisModelMut', 'module': 'DlisModel.tla',
             'cfg': {'quick': 'MC_DlisModel_mut.cfg', 'thorough': 'MC_DlisModel_mut_thorough.cfg'},
             'must_cover': ['DlisModel.AddOrigin', 'DlisModel.AddItem', 'DlisModel.Rename', 'DlisModel.SetOriginRef'],
             'timeout': {'quick': 900, 'thorough': 7200}}


M_DATA = {'name': 'DataSource', 'module': 'DataSource.tla',
          'cfg': {'quick': 'MC_DataSource_quick.cfg', 'thorough': 'MC_DataSource_thorough.cfg'},
          'must_cover': ['DataSource.Setup', 'DataSource.LoadChunk', 'DataSource.NextFrameData', 'DataSource.Finish']}
M_FIDX = {'name': 'FrameIndex', 'module': 'FrameIndex.tla',
          'cfg': {'quick': 'MC_FrameIndex_quick.cfg', 'thorough': 'MC_FrameIndex_thorough.cfg'},
          'must_cover': ['FrameIndex.SetUser', 'FrameIndex.Write'], 'timeout': {'quick': 900, 'thorough': 7200}}


# (no -coverage for this one: TLC's coverage bookkeeping explodes on the recursive grammar operators; the state graph has
#  exactly three levels - Init, Assign, Write - so 3 x |Init| states is the vacuity check)
M_ATTR = {'name': 'AttrEncoder', 'module': 'AttrEncoder.tla', 'cfg': {'quick': 'MC_AttrEncoder.cfg', 'thorough': 'MC_AttrEncoder.cfg'},
          'must_cover': [], 'min_states': 252, 'kw': {'quick': {'coverage': False}, 'thorough': {'coverage': False}}}
M_PRIM = {'name': 'PrimModel', 'module': 'PrimModel.tla', 'cfg': {'quick': 'PrimModel_quick.cfg', 'thorough': 'PrimModel_thorough.cfg'},
          'must_cover': ['PrimModel.NextCase']}


M_DIMS = {'name': 'ChannelDims', 'module': 'ChannelDims.tla', 'cfg': {'quick': 'MC_ChannelDims.cfg', 'thorough': 'MC_ChannelDims.cfg'},
          'must_cover': ['ChannelDims.FromData', 'ChannelDims.WriteItem']}
M_WHIST = {'name': 'WriteHistory', 'module': 'WriteHistory.tla',
           'cfg': {'quick': 'MC_WriteHistory_quick.cfg', 'thorough': 'MC_WriteHistory_thorough.cfg'},
           'must_cover': ['WriteHistory.' + a for a in ('SetVal', 'SetFt', 'Rename', 'SetOrigin', 'PinCast', 'ClearCast', 'RejectCast', 'PinBounds',
                                                        'Extend', 'SetText', 'Write')], 'timeout': {'quick': 900, 'thorough': 7200}}
M_DDEF = {'name': 'DerivedDefaults', 'module': 'DerivedDefaults.tla',
          'cfg': {'quick': 'MC_DerivedDefaults_quick.cfg', 'thorough': 'MC_DerivedDefaults_thorough.cfg'},
          'must_cover': ['DerivedDefaults.' + a for a in ('Rename', 'PinLong', 'PinDim', 'PinLim', 'SetShape', 'PinParDim', 'Write')],
          'timeout': {'quick': 900, 'thorough': 7200}}
M_CACHE = {'name': 'CacheModel', 'module': 'CacheModel.tla', 'cfg': {'quick': 'MC_CacheModel.cfg', 'thorough': 'MC_CacheModel_thorough.cfg'},
           'must_cover': ['CacheModel.Rename', 'CacheModel.SetOrigin', 'CacheModel.Write']}


def seg_drift(programs, traces, jobs):
    """Run the Segmenter model on the inputs of the recorded low-level writes; compare outcome, bytes, flushes."""
    cases = []
    for t in traces:
        for e in t['events']:
            if e['op'] != 'lowwrite':
                continue
            if not (e['vrl'] % 2 == 0 and 20 <= e['vrl'] <= 16384 and (e['out_chunk'] == 0 or e['out_chunk'] >= e['vrl'])):
                continue
            if sum(len(r['body']) for r in e['recs']) > 6000 or e['seq'] != 1 or e['setid'] != [88]:
                continue     # the model writes the fixed label of its own and is kept to small files
            c = {'id': t['id'], 'vrl': e['vrl'], 'out_chunk': e['out_chunk'], 'outcome': e['outcome'],
                 'recs': [{'eflr': r['eflr'], 'type': r['type'], 'len': len(r['body'])} for r in e['recs']],
                 'bytes': e['file']['bytes'] if e['outcome'] == 'ok' else [],
                 'flushlens': [f['total'] for f in e['file']['flushes']] if e['outcome'] == 'ok' else []}
            cases.append(c)
    if not cases:
        return [], {}
    rundir = new_run_dir('drift')
    try:
        n = max(1, min(jobs, len(cases) // 20 + 1))
        chunks = [cases[i::n] for i in range(n)]
        files = []
        for i, ch in enumerate(chunks):
            p = os.path.join(rundir, f'seg{i}.json')
            with open(p, 'w') as f:
                json.dump({'cases': ch}, f, separators=(',', ':'))
            files.append(p)

        def one(p):
            return run_tlc('TraceSeg.tla', 'TraceSeg.cfg', cwd=SPEC, workers=1, env={'TRACE_FILE': p}, timeout=3000,
                           metadir=p + '.meta', heap='3g', coverage=False)
        with ThreadPoolExecutor(max_workers=jobs) as ex:
            results = list(ex.map(one, files))
        drift, seen = [], 0
        stats = {'states': 0, 'distinct': 0}
        for r in results:
            if not r['completed']:
                raise MachineryError('TraceSeg did not complete:\n' + r['tail'])
            stats['states'] += r['states']
            stats['distinct'] += r['distinct']
            for v in extract_prints(r['raw'], 'DRIFT'):
                seen += 1
                if v[2] is not True:
                    drift.append(f"Segmenter model and code differ on scenario {v[1]} (model pc={v[3]}, model file length {v[4]}, flushes {v[5]})")
        if seen != len(cases):
            raise MachineryError(f'TraceSeg reported {seen} of {len(cases)} cases')
        return drift, stats
    finally:
        rm_run_dir(rundir)


COMMON_ASSUME = [
    'the two taps (lr-tap, flush-tap), the API wrapper of harness/driver.py and the JSON encoding report faithfully',
    'RP66Prim / RP66Frame / RP66EFLR are a correct transcription of RP66 V1 chapters 2, 3 and appendix B',
    'numpy casts / byte-order conversion, IEEE-754 conversion and time-zone arithmetic done by the harness to state expectations',
    'TLC 1.8.0 evaluates the specification correctly',
]

REGISTRY = {
    'C01': {'models': [M_SEG], 'drift': [seg_drift],
            'nontrivial': lambda c, p: c['files'] > 0 and c['vrs'] > 0,
            'rule': 'TLC: Segmenter model, every (vrl, record length) of the window x buffer sizes, exhaustive; '
                    'code: low-level writes for every (capacity, length) pair of the window + boundary lengths at large capacities, '
                    'label scenarios and API-built files; a scenario is non-trivial when a file was produced and read by the strict reader; distinct by program digest',
            'exhaustive_scope': 'Segmenter model within MC_Segmenter_<tier>.cfg constants',
            'assumptions': COMMON_ASSUME},
    'C02': {'models': [M_SEG], 'drift': [seg_drift],
            'nontrivial': lambda c, p: c['recs'] > 0,
            'rule': 'TLC: Segmenter model (FinalWellFormed compares reassembled records with the queue); code: multi-record queues with '
                    'boundary lengths, every length of the window, API files with records of all classes; non-trivial = at least one logical record reassembled and compared with the tap',
            'exhaustive_scope': 'Segmenter model within MC_Segmenter_<tier>.cfg constants',
            'assumptions': COMMON_ASSUME},
    'C06': {'models': [{'name': 'PrimModel', 'module': 'PrimModel.tla', 'cfg': {'quick': 'PrimModel_quick.cfg', 'thorough': 'PrimModel_thorough.cfg'},
                        'must_cover': ['PrimModel.NextCase']}],
            'nontrivial': lambda c, p: c['enc'] > 0,
            'rule': 'TLC: encoder/decoder round trip over boundary-complete domains; code: every generated (code, value) case is an encode event judged against Enc of the specification; '
                    'non-trivial = a program with encode events; distinct by program digest (each program holds up to 400 distinct cases; counters.enc is the number of judged calls)',
            'assumptions': COMMON_ASSUME},
    'C10': {'models': [M_SEG, M_DATA], 'drift': [seg_drift],
            'nontrivial': lambda c, p: c['flushes'] > 1 or c['cmp'] > 0,
            'rule': 'TLC: Segmenter model (DiskOnBoundary, DiskIsPrefix, ChunkInvisible, TotalIsSize); code: one specification written under several input/output chunk sizes '
                    'over pre-filled targets with the disk read at every flush; non-trivial = more than one flush observed or two files compared',
            'exhaustive_scope': 'Segmenter model within MC_Segmenter_<tier>.cfg constants',
            'assumptions': COMMON_ASSUME},
    'C15': {'models': [M_SEG], 'drift': [seg_drift],
            'nontrivial': lambda c, p: c['files'] + c['raised'] > 0,
            'rule': 'TLC: Segmenter.Writable for every vrl/length of the window including lengths 0..11 and vrl 20..30; code: size-ordered valid specifications; '
                    'non-trivial = a write was attempted',
            'exhaustive_scope': 'Segmenter model within MC_Segmenter_<tier>.cfg constants',
            'assumptions': COMMON_ASSUME},
    'C16': {'models': [M_SEG],
            'nontrivial': lambda c, p: c['nofmt'] > 0,
            'rule': 'TLC: Segmenter (lossless bodies); code: payload sequences (bytes/bytearray/str, boundary lengths) over 1..3 NO-FORMAT objects; non-trivial = a no-format record decoded',
            'assumptions': COMMON_ASSUME},
    'C03': {'models': [M_DATA], 'nontrivial': lambda c, p: c['fdata'] > 0 and c['frames'] > 0,
            'rule': 'code: frames over dtype x byte order x layout x width x rows x chunk x record length x cast; TLC slices every FDATA record by the decoded channel descriptors and compares each slot with the big-endian image of the input; non-trivial = FDATA records decoded for an expected frame',
            'assumptions': COMMON_ASSUME},
    'C04': {'models': [M_ATTR, M_PRIM], 'nontrivial': lambda c, p: c['eflrs'] > 0,
            'rule': 'code: all object classes x attribute subset patterns x multiplicities x named/unnamed sets x 1..3 objects per set; TLC parses every EFLR body with the component grammar; non-trivial = EFLRs decoded',
            'assumptions': COMMON_ASSUME},
    'C05': {'models': [M_ATTR], 'nontrivial': lambda c, p: c['objs'] > 0,
            'rule': 'code: objects of all classes with values per attribute kind and assignment route; TLC compares every assigned attribute of Canon with the decoded object; non-trivial = Canon objects compared',
            'assumptions': COMMON_ASSUME},
    'C07': {'models': [M_DLIS, M_DLISREF, M_DLISMUT], 'extra_gen': [dlismodel_programs, dlismodel_ref_programs, dlismodel_mut_programs], 'drift': [dlismodel_drift], 'nontrivial': lambda c, p: c['objs'] > 0 and c['eflrs'] > 0,
            'rule': 'code: object graphs with repeated names, several origins, explicit origin references, origin added late; TLC resolves every reference of the decoded file and compares with the object the history passed',
            'assumptions': COMMON_ASSUME},
    'C08': {'models': [M_DIMS, M_DATA], 'nontrivial': lambda c, p: c['frames'] > 0 and c['fdata'] > 0,
            'rule': 'code: data scenarios + user dimension/element-limit combinations + shared/absent channels; TLC checks decoded descriptors against record lengths',
            'assumptions': COMMON_ASSUME},
    'C09': {'models': [M_DLIS], 'extra_gen': [dlismodel_programs], 'drift': [dlismodel_drift], 'nontrivial': lambda c, p: c['eflrs'] > 0,
            'rule': 'code: header variants, origin first/middle/last, classes in random creation order, 1..3 logical files; TLC checks the order clauses on the decoded record sequence',
            'assumptions': COMMON_ASSUME},
    'C11': {'models': [M_DATA], 'nontrivial': lambda c, p: c['cmp'] > 0,
            'rule': 'code: the same data through inline / dict / structured array / HDF5 / pre-sliced arrays with windows and chunk sizes, five files per scenario; TLC compares files whose Canon and expected rows are equal; non-trivial = at least one pair of files compared',
            'assumptions': COMMON_ASSUME},
    'C13': {'models': [M_FIDX], 'nontrivial': lambda c, p: c['idx'] > 0,
            'rule': 'code: index sequences x dtypes x indexed/not x user-supplied values x windows, and write-write histories; TLC recomputes min/max/differences in integers from the expected rows; non-trivial = an index channel with integer values was judged',
            'assumptions': COMMON_ASSUME},
    'C18': {'models': [M_DLIS], 'extra_gen': [dlismodel_programs], 'drift': [dlismodel_drift], 'nontrivial': lambda c, p: c['objs'] > 0 and c['files'] > 0,
            'rule': 'code: 1..3 logical files x set-name assignment (distinct/default/partial) x interleavings x inline or write-time data; TLC compares per-logical-file inventories',
            'assumptions': COMMON_ASSUME},
    'C19': {'models': [M_DATA], 'nontrivial': lambda c, p: c['files'] + c['raised'] > 0,
            'rule': 'code: all source kinds, layouts incl. views into larger buffers and read-only arrays, successful and failing writes; TLC compares the caller buffers (whole base buffer) before and after',
            'assumptions': COMMON_ASSUME},
    'C12': {'models': [M_ATTR, M_DIMS], 'nontrivial': lambda c, p: c['files'] + c['raised'] > 0,
            'rule': 'code: every invalid class of the property (unequal rows, unsupported dtype, >2 dimensions, missing dataset, over-long names/labels/units/set names, non-ASCII text, integers outside their code, no origin/channels/frames) and degenerate inputs, combined with valid content; TLC requires: raised, or (for degenerate ones) a file every C01-C09/C16 clause accepts; non-trivial = a write was attempted',
            'assumptions': COMMON_ASSUME},
    'C14': {'models': [M_CACHE, M_WHIST, M_DDEF], 'extra_gen': [writehist_programs, defaults_programs], 'drift': [writehist_drift, defaults_drift], 'nontrivial': lambda c, p: c['cmp'] > 0,
            'rule': 'code: histories (1..3 other files built and written first, names reused with other origin/copy/type/value, HC entered and left, the same DLISFile written twice, mutation after a write) vs. a fresh process building the final specification alone; TLC compares the bytes of writes whose Canon and expected rows are equal; non-trivial = at least one comparison',
            'assumptions': COMMON_ASSUME},
    'C17': {'models': [M_DLIS], 'extra_gen': [dlismodel_programs], 'drift': [dlismodel_drift], 'nontrivial': lambda c, p: c['hcev'] > 0 or c['files'] > 0,
            'rule': 'code: each restricted aspect violated or not x enter/leave patterns (inside, outside, nested, after exception, decorator, after nested exit), followed by a breaching build outside the context; TLC tracks the flag with a stack model and judges flag discipline, breach-written, accepted-outside',
            'assumptions': COMMON_ASSUME},
    'C20': {'models': [M_DLIS, M_WHIST, M_DDEF], 'extra_gen': [dlismodel_programs, writehist_rejecting_programs, defaults_failing_programs], 'drift': [dlismodel_drift, writehist_drift, defaults_drift], 'nontrivial': lambda c, p: c['rejected'] > 0 or c['raised'] > 0,
            'rule': 'code: for every add_* method rejected calls (wrong type, value outside a hard enumeration, invalid reference, invalid cast dtype) first/between/after accepted same-named ones, in process 1; process 2 runs the history without them; TLC compares inventories with Canon and the projections (copy number, origin, dataset name) of the two processes; failed writes followed by a good one vs. a fresh process',
            'assumptions': COMMON_ASSUME},
}
