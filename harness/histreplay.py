"""Specification -> code for spec/WriteHistory.tla: TLC generates histories of assignments and writes (simulation and an
exhaustive enumeration over a small alphabet); each is replayed on the real objects, followed by a *fresh process* that
builds the final specification directly and writes the same data.  The projection the model predicts after every write
(dtype of VAL, index bounds, value count) is compared with the live objects (MODEL-DRIFT); the files are judged by
TraceDlis as usual (C14.HistoryIndependent compares the last file of the history with the fresh process's file)."""
import numpy as np

from build import BOOL, EN, F, I, L, R, S, Prog
from lib import SPEC, MachineryError, extract_prints, run_tlc

NP = {'f4': 'float32', 'f8': 'float64'}
CODE = {'f4': 'RepresentationCode.FSINGL', 'f8': 'RepresentationCode.FDOUBL'}
INDEX = {'A': np.array([1000, 1001, 1002, 1003, 1004, 1005], dtype='float64'),
         'N': np.array([1.0, 2.0, 3.0, float('nan'), 5.0, 6.0]),
         'B': np.array([20, 21, 22, 23, 24, 25], dtype='float64'),
         'V': np.array([100, 101, 103, 106, 110, 115], dtype='float64')}
BOUNDS = {('A', 'all'): (1000.0, 1005.0), ('A', 'win'): (1002.0, 1004.0), ('B', 'all'): (20.0, 25.0), ('B', 'win'): (22.0, 24.0),
          ('V', 'all'): (100.0, 115.0), ('V', 'win'): (103.0, 110.0), ('N', 'all'): (float('nan'),) * 2, ('N', 'win'): (float('nan'),) * 2, ('U', 'all'): (0.0, 9999.0)}
HEADER = {'H1': 'HISTORY', 'H2': 'HISTORY-RENAMED'}
PAYLOAD = {'P0': bytes(range(40, 60)), 'P1': bytes(range(90, 97)) * 40}
VALS = {('int', '1'): I(1), ('float', '1'): F(1.0), ('bool', '1'): BOOL(True), ('str', '1'): S('1'),
        ('int', '0'): I(0), ('float', '0'): F(0.0), ('float', 'nz'): F(-0.0)}


def tlc_histories(num, seed, depth=8):
    r = run_tlc('WriteHistory.tla', 'MC_WriteHistory_gen.cfg', cwd=SPEC, workers=1, coverage=False, heap='2g',
                simulate=f'num={num}', depth=depth, extra=('-seed', str(seed)), timeout=900)
    hs = [v[1] for v in extract_prints(r['raw'], 'HIST')]
    if not hs:
        raise MachineryError('WriteHistory simulation produced no history:\n' + r['tail'])
    seen, out = set(), []
    for h in hs:
        k = repr(h)
        if k not in seen:
            seen.add(k)
            out.append(h)
    return out, {'states': r['states'], 'distinct': r['distinct']}


def tlc_enumerate(cfg='MC_WriteHistory_enum.cfg'):
    r = run_tlc('WriteHistory.tla', cfg, cwd=SPEC, workers=1, coverage=False, heap='4g', timeout=1800)
    hs = [v[1] for v in extract_prints(r['raw'], 'HIST')]
    if not r['completed'] or not hs:
        raise MachineryError('WriteHistory enumeration failed:\n' + r['tail'])
    return hs, {'states': r['states'], 'distinct': r['distinct']}


def _skeleton(p, fid, final=None):
    """The fixed skeleton.  With `final` (fresh process) every object is created directly with its final values."""
    f = final or {}
    p.file(fid, vrl=f.get('vrl', 256))
    lf = p.lf(fid, lf=fid, fh_id=HEADER[f.get('hid', 'H1')])
    o = {'lf': lf}
    o['o1'] = p.origin(lf, name='O1', origin_reference=5, file_type=f.get('file_type', S('1')))
    o['o2'] = p.origin(lf, name='O2', fsn=2, origin_reference=9)
    o['idx'] = p.channel(lf, 'INDEX')
    o['val'] = p.channel(lf, 'VAL', cast=f.get('cast'))
    bkw = {}
    if 'bounds' in f:
        bkw = {'index_min': F(f['bounds'][0]), 'index_max': F(f['bounds'][1])}
    o['fr'] = p.frame(lf, 'FR', [o['idx'], o['val']], index_type=EN('FrameIndexType', 'BOREHOLE_DEPTH'), **bkw)
    o['z'] = p.add(lf, 'zone', f.get('name', 'ZA'), origin_reference=f.get('origin'))
    o['par'] = p.add(lf, 'parameter', 'PAR', zones=L(R(o['z'])), values=L(f.get('values', I(1))))
    o['grp'] = p.add(lf, 'group', 'GRP', object_list=L(R(o['z'])))
    o['com'] = p.add(lf, 'comment', 'COM', text=L(*f.get('text', [S('t0')])))
    o['nf'] = p.add(lf, 'no_format', 'BLOB', consumer_name=S('SOMEONE'))
    p.nofmt(lf, o['nf'], PAYLOAD[f.get('pay', 'P0')])
    return o


def _write(p, fid, o, op, fname, arrays):
    key = (op['dt'], op['ix'], op.get('wd', 1))
    if key not in arrays:
        val = ((np.arange(6) * 7 + 3) % 50).astype(NP[op['dt']])
        if op.get('wd', 1) > 1:
            val = np.stack([val] * op['wd'], axis=1)
        arrays[key] = (p.array(INDEX[op['ix']]), p.array(val))
    ia, va = arrays[key]
    kw = {'from': 2, 'to': 5} if op['w'] == 'win' else {}
    p.write(fid, route='dict', data_arrays={o['idx']: ia, o['val']: va}, fname=fname, **kw)


def history_program(pid, hist):
    p = Prog(pid, {'kind': 'writehist', 'model': hist})
    o = _skeleton(p, 1)
    arrays = {}
    texts = [S('t0')]
    final = {}       # what was touched, in the order of the first touch, with the final value
    nw = 0
    last_write = None
    for n, op in enumerate(hist):
        k = op['k']
        if k == 'set_val':
            v = VALS[(op['t'], op['v'])]
            p.set(o['par'], 'values', L(v))
            final['values'] = v
        elif k == 'set_ft':
            v = VALS[(op['t'], op['v'])]
            p.set(o['o1'], 'file_type', v)
            final['file_type'] = v
        elif k == 'rename':
            p.rename(o['z'], op['name'])
            final['name'] = op['name']
        elif k == 'set_origin':
            p.set_origin_ref(o['z'], op['ref'])
            final['origin'] = op['ref']
        elif k == 'pin_cast':
            p.set_cast(o['val'], NP[op['dt']])
            final['cast'] = NP[op['dt']]
        elif k == 'clear_cast':
            p.set_cast(o['val'], None)
            final['cast'] = None
        elif k == 'reject_cast':
            p.steps.append({'op': 'set', 'obj': o['val'], 'part': 'cast_dtype', 'val': {'t': 'dtype', 'v': 'int64'}})
        elif k == 'pin_bounds':
            lo, hi = BOUNDS[(op['ix'], op['w'])]
            p.set(o['fr'], 'index_min', F(lo))
            p.set(o['fr'], 'index_max', F(hi))
            final['bounds'] = (lo, hi)
        elif k == 'extend':
            more = [S(f'more{n}')]
            p.extend(o['com'], 'text', texts, more)
            texts = texts + more
            final['text'] = texts
        elif k == 'set_text':
            texts = [S(f's{n}-{j}') for j in range(op['n'])]
            p.set(o['com'], 'text', L(*texts))
            final['text'] = texts
        elif k == 'set_header':
            p.set_header(o['lf'], 'header_id', HEADER[op['id']])
            final['hid'] = op['id']
        elif k == 'relabel':
            p.set_sul(1, 'max_record_length', op['vrl'])
            final['vrl'] = op['vrl']
        elif k == 'replace':
            p.nofmt_replace(1, PAYLOAD[op['pay']])
            final['pay'] = op['pay']
        elif k == 'write':
            nw += 1
            _write(p, 1, o, op, f'w{nw}.dlis', arrays)
            p.steps.append({'op': 'probe', 'items': [{'obj': o['val'], 'path': ['representation_code', 'value']},
                                                      {'obj': o['fr'], 'path': ['index_min', 'value']},
                                                      {'obj': o['fr'], 'path': ['index_max', 'value']},
                                                      {'obj': o['com'], 'path': ['text', 'count']}]})
            last_write = op
        else:
            raise MachineryError(f'unknown model operation {k}')
    # the fresh process: the final specification, built directly (no assignment after creation), and the data of the last write
    p.next_proc(fresh=True)
    o = _skeleton(p, 101, final)
    _write(p, 101, o, last_write, 'fresh.dlis', {})
    return p.build()


def writehist_programs(tier, seed, n=None):
    n = n or (150 if tier == 'quick' else 4000)
    hs, st = tlc_histories(n, 2000 + seed)
    progs = [history_program(f'W-hist-{i}', h) for i, h in enumerate(hs)]
    # every history of the small alphabet with three operations (thorough), a seed-dependent sample of them (quick);
    # thorough adds a sample of those with four
    import random
    rng = random.Random(f'writehist-{tier}-{seed}')
    es, st2 = tlc_enumerate('MC_WriteHistory_enum.cfg')
    es = sorted(es, key=repr)
    if tier == 'quick':
        es = rng.sample(es, min(len(es), 250))
    else:
        e4, st4 = tlc_enumerate('MC_WriteHistory_enum4.cfg')
        es = es + rng.sample(sorted(e4, key=repr), min(len(e4), 5000))
        st2 = {'states': st2['states'] + st4['states'], 'distinct': st2['distinct'] + st4['distinct']}
    have = {repr(p['meta']['model']) for p in progs}
    for i, h in enumerate(es):
        if repr(h) in have:
            continue
        q = history_program(f'W-enum-{i}', h)
        q['meta']['exhaustive'] = tier != 'quick'
        progs.append(q)
    for p in progs:
        p['meta']['gen_states'] = {'states': st['states'] + st2['states'], 'distinct': st['distinct'] + st2['distinct']}
    return progs


def _fl(x):
    return 'nan' if x != x else repr(float(x))


def writehist_drift(programs, traces, jobs):
    """The model's projection after every write against the live objects."""
    drift, n = [], 0
    byid = {p['id']: p for p in programs}
    for t in traces:
        p = byid[t['id']]
        if p.get('meta', {}).get('kind') != 'writehist':
            continue
        model = p['meta']['model']
        ops = [m for m in model if m['k'] != 'write']
        evs = [e for e in t['events'] if e.get('proc', 1) == 1]
        # a refused assignment must be refused by the code, every other assignment accepted
        sets = [e for e in evs if e['op'] == 'set']
        probes = [e for e in evs if e['op'] == 'probe']
        writes = [m for m in model if m['k'] == 'write']
        if len(probes) != len(writes):
            drift.append(f"WriteHistory: scenario {t['id']}: {len(writes)} writes in the model, {len(probes)} probes recorded")
            continue
        for m, e in zip(writes, probes):
            n += 1
            lo, hi = BOUNDS[(m['proj']['bix'], m['proj']['bw'])]
            want = [CODE[m['proj']['dt']], _fl(lo), _fl(hi), str(m['proj']['cnt'])]
            if e['vals'] != want:
                drift.append(f"WriteHistory: scenario {t['id']} write {m['dt']}/{m['ix']}/{m['w']}: projection (code, index min, max, count) model={want} code={e['vals']}")
                break
        nrej = sum(1 for m in model if m['k'] == 'reject_cast')
        got = sum(1 for e in sets if e.get('outcome') == 'raised')
        if nrej != got:
            drift.append(f"WriteHistory: scenario {t['id']}: {nrej} refused assignments in the model, {got} in the code "
                         f"({[e.get('exc', '')[:60] for e in sets if e.get('outcome') == 'raised'][:2]})")
    return drift, {'states': n, 'distinct': n}


def writehist_rejecting_programs(tier, seed):
    """The histories that contain a refused assignment (C20: as if the call had never been made)."""
    return [p for p in writehist_programs(tier, seed) if any(m['k'] == 'reject_cast' for m in p['meta']['model'])]


# ------------------------------------------------------------------------------------------------------------------
# spec/DerivedDefaults.tla: the defaults the library fills into the user's attributes at a write (LONG-NAME, DIMENSION,
# ELEMENT-LIMIT of a channel, DIMENSION of a parameter) over histories of assignments and writes
# ------------------------------------------------------------------------------------------------------------------
def _dd_tlc(cfg, simulate=None, seed=0, depth=9):
    kw = {'simulate': simulate, 'depth': depth, 'extra': ('-seed', str(seed))} if simulate else {}
    r = run_tlc('DerivedDefaults.tla', cfg, cwd=SPEC, workers=1, coverage=False, heap='2g', timeout=1800, **kw)
    hs = [v[1] for v in extract_prints(r['raw'], 'HIST')]
    if not hs or (not simulate and not r['completed']):
        raise MachineryError(f'DerivedDefaults ({cfg}) produced no history:\n' + r['tail'])
    seen, out = set(), []
    for h in hs:
        k = repr(h)
        if k not in seen:
            seen.add(k)
            out.append(h)
    return out, {'states': r['states'], 'distinct': r['distinct']}


def _dd_values(shape):
    return L(I(1)) if shape == 1 else L(L(*[I(j + 1) for j in range(shape)]))


def _dd_skeleton(p, fid, f):
    p.file(fid, vrl=512)
    lf = p.lf(fid, lf=fid, fh_id='DEFAULTS-HISTORY')
    p.origin(lf, name='O')
    kw = {}          # in the order of the first touch in the history (Canon keeps the attributes in the order of their assignment)
    for k in f:
        if k == 'long':
            kw['long_name'] = S(f['long'])
        elif k == 'dim':
            kw['dimension'] = L(I(f['dim']))
        elif k == 'lim':
            kw['element_limit'] = L(I(f['lim']))
    ch = p.channel(lf, f.get('name', 'VA'), dataset_name='dset', **kw)
    p.frame(lf, 'FR', [ch])
    z = p.add(lf, 'zone', 'Z')
    pkw = {'dimension': L(I(f['pdim']))} if f.get('pdim') else {}
    par = p.add(lf, 'parameter', 'PAR', zones=L(R(z)), values=_dd_values(f.get('shape', 1)), **pkw)
    return {'lf': lf, 'ch': ch, 'par': par}


def _dd_write(p, fid, o, op, fname, arrays):
    wd = op['wd']
    if wd not in arrays:
        a = (np.arange(6) * 3 + 1).astype('float64')
        arrays[wd] = p.array(a if wd == 1 else np.stack([a + j for j in range(wd)], axis=1))
    valid = bool(op['valid'])
    p.write(fid, route='dict', data_arrays={o['ch']: arrays[wd]}, fname=fname, valid=valid, either=not valid)


def defaults_program(pid, hist):
    p = Prog(pid, {'kind': 'defaultshist', 'model': hist})
    o = _dd_skeleton(p, 1, {})
    final, arrays, nw, last = {}, {}, 0, None
    for op in hist:
        k = op['k']
        if k == 'rename':
            p.rename(o['ch'], op['name'])
            final['name'] = op['name']
        elif k == 'pin_long':
            p.set(o['ch'], 'long_name', S(op['v']))
            final['long'] = op['v']
        elif k == 'pin_dim':
            p.set(o['ch'], 'dimension', L(I(op['w'])))
            final['dim'] = op['w']
        elif k == 'pin_lim':
            p.set(o['ch'], 'element_limit', L(I(op['w'])))
            final['lim'] = op['w']
        elif k == 'set_shape':
            p.set(o['par'], 'values', _dd_values(op['s']))
            final['shape'] = op['s']
        elif k == 'pin_pdim':
            p.set(o['par'], 'dimension', L(I(op['s'])))
            final['pdim'] = op['s']
        elif k == 'write':
            nw += 1
            _dd_write(p, 1, o, op, f'w{nw}.dlis', arrays)
            p.steps.append({'op': 'probe', 'items': [{'obj': o['ch'], 'path': ['long_name', 'value']},
                                                      {'obj': o['ch'], 'path': ['dimension', 'value']},
                                                      {'obj': o['ch'], 'path': ['element_limit', 'value']},
                                                      {'obj': o['par'], 'path': ['dimension', 'value']}]})
            last = op
        else:
            raise MachineryError(f'unknown model operation {k}')
    p.next_proc(fresh=True)
    o = _dd_skeleton(p, 101, final)
    _dd_write(p, 101, o, last, 'fresh.dlis', {})
    return p.build()


def defaults_programs(tier, seed, n=None):
    import random
    rng = random.Random(f'ddefaults-{tier}-{seed}')
    hs, st = _dd_tlc('MC_DerivedDefaults_gen.cfg', simulate=f'num={n or (150 if tier == "quick" else 3000)}', seed=3000 + seed)
    es, st2 = _dd_tlc('MC_DerivedDefaults_enum.cfg')
    es = sorted(es, key=repr)
    exhaustive = tier != 'quick'
    if tier == 'quick':
        es = rng.sample(es, min(len(es), 200))
    progs = [defaults_program(f'D-hist-{i}', h) for i, h in enumerate(hs)]
    have = {repr(h) for h in hs}
    for i, h in enumerate(es):
        if repr(h) not in have:
            q = defaults_program(f'D-enum-{i}', h)
            q['meta']['exhaustive'] = exhaustive
            progs.append(q)
    for p in progs:
        p['meta']['gen_states'] = {'states': st['states'] + st2['states'], 'distinct': st['distinct'] + st2['distinct']}
    return progs


def defaults_failing_programs(tier, seed):
    """The histories with a refused write before the last one (C20: once the cause is removed, the file of a fresh specification)."""
    return [p for p in defaults_programs(tier, seed) if any(m['k'] == 'write' and not m['valid'] for m in p['meta']['model'])]


def _dd_show(v, none):
    return 'None' if v == none else (v if isinstance(v, str) else f'[{v}]')


def defaults_drift(programs, traces, jobs):
    """The model's slots after every write, and whether the write is refused, against the live objects."""
    drift, n = [], 0
    byid = {p['id']: p for p in programs}
    for t in traces:
        p = byid[t['id']]
        if p.get('meta', {}).get('kind') != 'defaultshist':
            continue
        evs = [e for e in t['events'] if e.get('proc', 1) == 1]
        probes = [e for e in evs if e['op'] == 'probe']
        wevs = [e for e in evs if e['op'] == 'write']
        writes = [m for m in p['meta']['model'] if m['k'] == 'write']
        if len(probes) != len(writes) or len(wevs) != len(writes):
            drift.append(f"DerivedDefaults: scenario {t['id']}: {len(writes)} writes in the model, {len(wevs)} / {len(probes)} recorded")
            continue
        for m, e, w in zip(writes, probes, wevs):
            n += 1
            pr = m['proj']
            want = [_dd_show(pr['long'], ''), _dd_show(pr['dim'], 0), _dd_show(pr['lim'], 0), _dd_show(pr['pdim'], 0)]
            if e['vals'] != want or (w['outcome'] == 'raised') != bool(m['raises']):
                drift.append(f"DerivedDefaults: scenario {t['id']} write width {m['wd']}: (LONG-NAME, DIMENSION, ELEMENT-LIMIT, PARAMETER DIMENSION; refused) "
                             f"model={want};{bool(m['raises'])} code={e['vals']};{w['outcome'] == 'raised'} {w.get('exc', '')[:80]}")
                break
    return drift, {'states': n, 'distinct': n}
