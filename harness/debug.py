"""Debug helper: re-run one scenario (from a replay file) and print TLC's DBG lines."""
import json, os, sys
sys.path.insert(0, os.path.dirname(os.path.abspath(__file__)))
import driver, lib
rp = json.load(open(sys.argv[1]))
tr = driver.run_batch([rp['program']])
d = lib.new_run_dir('dbg')
p = os.path.join(d, 'b.json')
json.dump({'traces': tr}, open(p, 'w'))
r = lib.run_tlc('TraceDlis.tla', 'TraceDlis.cfg', workers=1, env={'TRACE_FILE': p, 'VERIF_DEBUG': '1'}, coverage=False, heap='3g')
def bs(x):
    if isinstance(x, list) and x and all(isinstance(i, int) and 0 <= i < 1114112 for i in x):
        return ''.join(chr(i) for i in x)
    if isinstance(x, list): return [bs(i) for i in x]
    if isinstance(x, dict): return {k: bs(v) for k, v in x.items()}
    if isinstance(x, tuple): return (x[0], [bs(i) for i in x[1]])
    return x
for v in lib.extract_prints(r['raw'], 'DBG'):
    print('DBG', json.dumps(bs(v[1:]))[:1200])
for v in lib.extract_prints(r['raw'], 'VERDICT'):
    print('VERDICT', v[2])
if not r['completed']: print(r['tail'])
for e in tr[0]['events']:
    if e.get('outcome') == 'raised': print('RAISED', e['op'], e.get('exc'))
lib.rm_run_dir(d)
