"""Records executions of *arbitrary* code that uses the public dliswriter API (the repository's fixture builders and
example scripts) in the event format of driver.py, so that TLC validates what the existing tests already execute.

The public entry points are wrapped for the duration of a `with Recorder() as rec:` block; nothing in /repo is edited.
"""
import datetime as _dt
import functools
import hashlib
import inspect
import os

import numpy as np

from lib import blist, slimbs
from objmodel import CLASSES, DTYPE_CODE


def cps(s):
    return [ord(c) for c in s]


class Recorder:
    def __init__(self, ctxdir, helpers, inplace=False, max_file=0):
        self.inplace = inplace        # also copy the file to the path the script asked for (pytest runs read their files back)
        self.max_file = max_file      # files larger than this many bytes are not handed to TLC (0: no limit)
        self.skipped = 0
        self.dir = ctxdir
        self.h = helpers              # functions of driver.py (num_abs, dt_utc_fields, be_bytes, hc_flag, Tap, small_int, ...)
        self.events = []
        self.fids, self.lfs, self.oids = {}, {}, {}
        self.inline = {}              # id(channel item) -> array given at add_channel
        self._keep = []               # every recorded object stays alive: a recycled id() would attribute calls to the wrong object
        self.items = {}               # oid -> item
        self._undo = []
        self.nwrite = 0

    # ------------------------------------------------------------------ abstraction of Python values
    def abs_scalar(self, v, kind=''):
        from enum import Enum
        from dliswriter.logical_record.core.eflr import EFLRItem
        if isinstance(v, EFLRItem):
            return {'k': 'ref', 'oid': self.oids.get(id(v), 0)}
        if isinstance(v, Enum):
            return {'k': 'str', 's': cps(v.value)}
        if isinstance(v, _dt.datetime):
            return self.h['dt_utc_fields'](v)
        if isinstance(v, (bool, np.bool_)):
            return self.h['num_abs'](int(v))
        if isinstance(v, (int, float, np.number)):
            return self.h['num_abs'](v)
        if isinstance(v, str):
            if kind.startswith('DT'):
                for fmt in ("%Y/%m/%d %H:%M:%S", "%Y.%m.%d %H:%M:%S"):
                    try:
                        return self.h['dt_utc_fields'](_dt.datetime.strptime(v, fmt))
                    except ValueError:
                        pass
            return {'k': 'str', 's': cps(v)}
        return {'k': 'other', 't': type(v).__name__}

    def flatten(self, v):
        if isinstance(v, np.ndarray):
            v = v.tolist()
        if isinstance(v, (list, tuple)):
            out = []
            for x in v:
                out.extend(self.flatten(x))
            return out
        return [v]

    def abs_attr(self, label, v, kind):
        from dliswriter import AttrSetup
        from enum import Enum
        val, units = v, None
        if isinstance(v, AttrSetup):
            val, units = v.value, v.units
        elif isinstance(v, dict):
            val, units = v.get('value'), v.get('units')
        rec = {'label': cps(label), 'has_val': val is not None, 'val': [], 'has_units': False, 'units': [], 'judge': True,
               'enum_ok': True}
        base = kind.rstrip('+')
        if val is not None:
            flat = self.flatten(val)
            rec['val'] = [self.abs_scalar(x, base) for x in flat]
            # conversions the API documents (numeric-looking text, yes/no flags, dimensions given as int ...) are not judged
            if any(isinstance(x, str) for x in flat) and base in ('N', 'NF', 'N16', 'NU', 'N8', 'Ni', 'ANY', 'S', 'DTN'):
                rec['judge'] = False
            if base in ('Dm',) or any(a['k'] == 'other' for a in rec['val']):
                rec['judge'] = False
            if base == 'S':
                rec['val'] = [self.h['num_abs'](int(bool(x))) if isinstance(x, (bool, np.bool_)) else a for x, a in zip(flat, rec['val'])]
            if base.startswith('E:'):
                from dliswriter.utils import enums
                members = {m.value for m in getattr(enums, base[2:])}
                rec['enum_ok'] = all(isinstance(x, Enum) or (isinstance(x, str) and x in members) for x in flat)
        if units is not None:
            rec['has_units'] = True
            rec['units'] = cps(units.value if isinstance(units, Enum) else str(units))
        return rec

    # ------------------------------------------------------------------ patching
    def patch(self, obj, name, wrapper):
        orig = getattr(obj, name)
        setattr(obj, name, wrapper(orig))
        self._undo.append((obj, name, orig))

    def __enter__(self):
        from dliswriter import DLISFile
        from dliswriter.file.file import LogicalFile
        rec = self

        def w_init(orig):
            @functools.wraps(orig)
            def f(self_, *a, **kw):
                fid = len(rec.fids) + 1
                ev = {'op': 'new_file', 'fid': fid}
                try:
                    orig(self_, *a, **kw)
                    rec.fids[id(self_)] = fid
                    rec._keep.append(self_)
                    sul = self_.storage_unit_label
                    ev.update({'vrl': int(sul.max_record_length), 'seq': int(sul.sequence_number), 'setid': cps(sul.set_identifier), 'outcome': 'ok'})
                except Exception as e:  # noqa
                    ev.update({'vrl': 0, 'seq': 0, 'setid': [], 'outcome': 'raised', 'exc': rec.h['exc_text'](e)})
                    ev['hc'] = rec.h['hc_flag']()
                    rec.events.append(ev)
                    raise
                ev['hc'] = rec.h['hc_flag']()
                rec.events.append(ev)
            return f

        def w_add_lf(orig):
            @functools.wraps(orig)
            def f(self_, *a, **kw):
                lfid = len(rec.lfs) + 1
                ev = {'op': 'add_lf', 'fid': rec.fids.get(id(self_), 0), 'lf': lfid}
                try:
                    lf = orig(self_, *a, **kw)
                    rec.lfs[id(lf)] = lfid
                    rec._keep.append(lf)
                    ev.update({'fh_id': cps(lf.file_header.header_id), 'fh_seq_dec': cps(str(lf.file_header.sequence_number)), 'outcome': 'ok'})
                except Exception as e:  # noqa
                    ev.update({'fh_id': [], 'fh_seq_dec': [49], 'outcome': 'raised', 'exc': rec.h['exc_text'](e)})
                    ev['hc'] = rec.h['hc_flag']()
                    rec.events.append(ev)
                    raise
                ev['hc'] = rec.h['hc_flag']()
                rec.events.append(ev)
                return lf
            return f

        def w_add(cls):
            set_type, _, table = CLASSES[cls]

            def outer(orig):
                sig = inspect.signature(orig)

                @functools.wraps(orig)
                def f(self_, *a, **kw):
                    b = sig.bind(self_, *a, **kw)
                    args = dict(b.arguments)
                    args.pop('self', None)
                    oid = len(rec.oids) + 1 + 5000
                    name = args.get('name')
                    ev = {'op': 'add', 'fid': rec.fid_of_lf(self_), 'lf': rec.lfs.get(id(self_), 0), 'cls': cps(set_type), 'oid': oid,
                          'name': cps(name) if isinstance(name, str) else [],
                          'has_setname': bool(args.get('set_name')), 'setname': cps(args.get('set_name') or ''),
                          'origin': args.get('origin_reference') if args.get('origin_reference') is not None else -1,
                          'attrs': [], 'has_data': cls == 'channel' and args.get('data') is not None, 'soft_only': False}
                    for k, v in args.items():
                        if k in table and v is not None:
                            ev['attrs'].append(rec.abs_attr(table[k][1], v, table[k][2]))
                    try:
                        item = orig(self_, *a, **kw)
                    except Exception as e:  # noqa
                        ev.update({'outcome': 'raised', 'exc': rec.h['exc_text'](e), 'proj': {'copy': -1, 'origin': -1, 'dataset': []}})
                        ev['hc'] = rec.h['hc_flag']()
                        rec.events.append(ev)
                        raise
                    rec.oids[id(item)] = oid
                    rec._keep.append(item)
                    rec.items[oid] = item
                    if cls == 'channel' and args.get('data') is not None:
                        rec.inline[id(item)] = args['data']
                    orr = item.origin_reference
                    ev.update({'outcome': 'ok', 'proj': {'copy': int(item.copy_number), 'origin': -1 if orr is None else int(orr),
                                                        'dataset': cps(item.dataset_name) if cls == 'channel' else []}})
                    ev['hc'] = rec.h['hc_flag']()
                    rec.events.append(ev)
                    return item
                return f
            return outer

        def w_nofmt(orig):
            @functools.wraps(orig)
            def f(self_, no_format_object, data):
                raw = data.encode('latin-1', 'replace') if isinstance(data, str) else bytes(data)
                ev = {'op': 'nofmt_data', 'lf': rec.lfs.get(id(self_), 0), 'oid': rec.oids.get(id(no_format_object), 0),
                      'kind': type(data).__name__, 'payload': [ord(c) for c in data] if isinstance(data, str) else blist(raw)}
                try:
                    r = orig(self_, no_format_object, data)
                    ev['outcome'] = 'ok'
                except Exception as e:  # noqa
                    ev.update({'outcome': 'raised', 'exc': rec.h['exc_text'](e)})
                    ev['hc'] = rec.h['hc_flag']()
                    rec.events.append(ev)
                    raise
                ev['hc'] = rec.h['hc_flag']()
                rec.events.append(ev)
                return r
            return f

        def w_write(orig):
            @functools.wraps(orig)
            def f(self_, dlis_file_name, input_chunk_size=None, output_chunk_size=65536, data=None, from_idx=0, to_idx=None):
                return rec.write(orig, self_, dlis_file_name, input_chunk_size, output_chunk_size, data, from_idx, to_idx)
            return f

        self.patch(DLISFile, '__init__', w_init)
        self.patch(DLISFile, 'add_logical_file', w_add_lf)
        self.patch(DLISFile, 'write', w_write)
        for cls in CLASSES:
            self.patch(LogicalFile, 'add_' + cls, w_add(cls))
        self.patch(LogicalFile, 'add_no_format_frame_data', w_nofmt)
        self.patch_setters()
        return self

    def patch_setters(self):
        """Later assignments item.<attr>.value = v / .units = u (outside the constructors) become `set` events."""
        from dliswriter.logical_record.core.attribute.attribute import Attribute
        rec = self
        vprop, uprop = Attribute.value, Attribute.units

        def vset(self_, val):
            item = self_.parent_eflr
            oid = rec.oids.get(id(item), 0) if item is not None else 0
            if oid:     # only for items that already exist for the recorder (i.e. after their constructor returned)
                ev = {'op': 'set', 'oid': oid, 'part': 'value', 'label': cps(self_.label), 'val': [rec.abs_scalar(x) for x in rec.flatten(val)] if val is not None else [],
                      'units': [], 'origin': -1, 'name': [], 'enum_ok': True, 'soft_only': False, 'judge': not any(isinstance(x, str) for x in rec.flatten(val)) or type(self_).__name__ in ('TextAttribute', 'IdentAttribute')}
                try:
                    vprop.fset(self_, val)
                    ev['outcome'] = 'ok'
                except Exception as e:  # noqa
                    ev.update({'outcome': 'raised', 'exc': rec.h['exc_text'](e)})
                    ev['hc'] = rec.h['hc_flag']()
                    rec.events.append(ev)
                    raise
                ev['hc'] = rec.h['hc_flag']()
                if not rec.in_write:
                    rec.events.append(ev)
                return
            vprop.fset(self_, val)

        def uset(self_, u):
            from enum import Enum
            item = self_.parent_eflr
            oid = rec.oids.get(id(item), 0) if item is not None else 0
            uprop.fset(self_, u)
            if oid and not rec.in_write:
                rec.events.append({'op': 'set', 'oid': oid, 'part': 'units', 'label': cps(self_.label), 'val': [], 'judge': True,
                                   'units': cps(u.value if isinstance(u, Enum) else str(u)), 'origin': -1, 'name': [], 'enum_ok': True, 'soft_only': False, 'outcome': 'ok', 'hc': rec.h['hc_flag']()})

        Attribute.value = property(vprop.fget, vset)
        Attribute.units = property(uprop.fget, uset)
        self._undo.append((Attribute, 'value', vprop))
        self._undo.append((Attribute, 'units', uprop))

    in_write = False

    def __exit__(self, *exc):
        for obj, name, orig in reversed(self._undo):
            setattr(obj, name, orig)
        return False

    def fid_of_lf(self, lf):
        return self.fids.get(id(lf.physical_file), 0)

    # ------------------------------------------------------------------ write
    def write(self, orig, df, fname, in_chunk, out_chunk, data, frm, to):
        h = self.h
        self.nwrite += 1
        route = 'none' if data is None else ('dict' if isinstance(data, dict) else ('struct' if isinstance(data, np.ndarray) else 'h5'))
        ev = {'op': 'write', 'fid': self.fids.get(id(df), 0),
              'opts': {'in_chunk': in_chunk or 0, 'out_chunk': int(out_chunk or 0), 'from': frm, 'to': -1 if to is None else to, 'route': route},
              'watch': False, 'prior': -1, 'fresh': False,
              'claim': {'valid': False, 'mustraise': '', 'hc_breach': '', 'either': True}}     # validity of a foreign script is not claimed
        frames, arrays = [], []
        try:
            h5 = None
            if route == 'h5':
                import h5py
                h5 = h5py.File(str(data), 'r')
            for lf in df.logical_files:
                for fr in lf.frames:
                    chans, arrs = [], []
                    for ch in fr.channels.value:
                        a = None
                        if route == 'dict' and ch.dataset_name in data:
                            a = data[ch.dataset_name]
                        elif route == 'struct' and ch.dataset_name in (data.dtype.names or ()):
                            a = data[ch.dataset_name]
                        elif route == 'h5':
                            key = ch.dataset_name if ch.dataset_name.startswith('/') else '/' + ch.dataset_name
                            a = h5[key][:] if key in h5 else None
                        if a is None:
                            a = self.inline.get(id(ch))
                        cast = np.dtype(ch.cast_dtype) if (ch.cast_dtype is not None and not getattr(ch, '_cast_dtype_from_data', False)) else None
                        present = a is not None
                        dtn = (cast or a.dtype).name if present else ''
                        chans.append({'oid': self.oids.get(id(ch), 0), 'present': present, 'rows': int(a.shape[0]) if present else 0,
                                      'ndim': int(a.ndim) if present else 0, 'dtype': cps(dtn), 'code': DTYPE_CODE.get(dtn, 0),
                                      'srcsigned': bool(present and np.issubdtype((cast or a.dtype), np.signedinteger)),
                                      'dims': [int(x) for x in a.shape[1:]] if present and a.ndim > 1 else [1]})
                        arrs.append((a, cast))
                        if present and not any(a is x for x in arrays):
                            arrays.append(a)
                    recd = {'oid': self.oids.get(id(fr), 0), 'chans': chans, 'rows': [], 'has_rows': False,
                            'index': {'ok': False, 'vals': [], 'wide': {'ok': False, 'min': [], 'max': [], 'dimg': [], 'dsign': []}}}
                    ok = all(c['present'] and c['code'] and 1 <= c['ndim'] <= 2 for c in chans) and len({c['rows'] for c in chans}) == 1
                    if ok:
                        n = chans[0]['rows']
                        t = n if to is None else to
                        if 0 <= frm < t <= n and (t - frm) * sum(int(np.prod(c['dims'])) for c in chans) <= 20000:
                            recd['rows'] = [[h['be_bytes'](a[i], cast) for a, cast in arrs] for i in range(frm, t)]
                            recd['has_rows'] = True
                            a0, cast0 = arrs[0]
                            if a0.ndim == 1:
                                vals = [h['small_int'](a0[i] if cast0 is None else a0[i].astype(cast0)) for i in range(frm, t)]
                                if all(v[0] for v in vals):
                                    recd['index'] = {'ok': True, 'vals': [slimbs(v[1]) for v in vals],
                                                     'wide': {'ok': False, 'min': [], 'max': [], 'dimg': [], 'dsign': []}}
                    frames.append(recd)
            if h5 is not None:
                h5.close()
        except Exception as e:  # noqa
            frames = []
        ev['frames'] = frames
        def image(a):
            # what TLC compares before and after the write: the bytes, or (large arrays) their SHA-256
            raw_ = np.ascontiguousarray(a).tobytes()
            return blist(raw_ if len(raw_) <= 4096 else hashlib.sha256(raw_).digest())
        before = [{'id': f'a{i}', 'b': image(a)} for i, a in enumerate(arrays)]
        path = os.path.join(self.dir, f'recorded{self.nwrite}.dlis')      # the script's own target path is not used ...
        tap = h['Tap']()
        h['hooks'].sinks.append(tap)
        self.in_write = True
        try:
            orig(df, path, input_chunk_size=in_chunk, output_chunk_size=out_chunk if out_chunk != 2 ** 32 else 65536, data=data,
                 from_idx=frm, to_idx=to)
            ev['outcome'] = 'ok'
            with open(path, 'rb') as f:
                raw = f.read()
            if self.inplace:              # (the judged bytes are those of the private file: nobody else writes there)
                try:
                    with open(fname, 'wb') as f:
                        f.write(raw)
                except Exception:  # noqa
                    pass
            if self.max_file and len(raw) > self.max_file:
                ev['op'] = 'write_skipped'                                # too large for TLC: not judged (counted)
                ev['size'] = len(raw)
                raw = b''
                tap.lr, tap.flushes = [], []
                ev['frames'] = []
                self.skipped += 1
            ev['file'] = {'bytes': blist(raw), 'total': tap.flushes[-1]['total'] if tap.flushes else -1,
                          'tap': [{'eflr': x['eflr'], 'type': x['type'], 'body': x['body']} for x in tap.lr], 'flushes': tap.flushes}
        except Exception as e:  # noqa
            ev.update({'outcome': 'raised', 'exc': h['exc_text'](e)})
            raise
        finally:
            self.in_write = False
            h['hooks'].sinks.remove(tap)
            after = [{'id': f'a{i}', 'b': image(a)} for i, a in enumerate(arrays)]
            ev['caller'] = {'before': before, 'after': after, 'keys_same': True}
            ev['hc'] = h['hc_flag']()
            self.events.append(ev)
            # touch the path the script asked for, scripts may look at it afterwards
            try:
                if ev.get('outcome') == 'ok' and os.path.abspath(str(fname)).startswith(self.dir):
                    with open(fname, 'wb') as f:
                        f.write(raw)
            except Exception:  # noqa
                pass
