#!/bin/sh
# usage: confirm_seed.sh <seed dir name>   -> /verif/seeded/<name>/confirm.txt
s=$1
d=/tmp/confirm_$s
out=/verif/seeded/$s/confirm.txt
git -C /repo worktree add --detach "$d" HEAD >/dev/null 2>&1
cd "$d" || exit 2
{
echo "base commit: $(git -C /repo rev-parse --short HEAD)"
env -u WELL_ID_DLISWRITER_VERIF PYTHONDONTWRITEBYTECODE=1 PYTHONPATH="$d/src" timeout 900 /venv/bin/python /verif/seeded/$s/demo.py >/tmp/confirm_$s.clean.log 2>&1; echo "demo on clean tree: exit $?"
git apply /verif/seeded/$s/patch.diff && echo "patch applies: yes" || echo "patch applies: NO"
env -u WELL_ID_DLISWRITER_VERIF PYTHONDONTWRITEBYTECODE=1 PYTHONPATH="$d/src" timeout 900 /venv/bin/python /verif/seeded/$s/demo.py >/tmp/confirm_$s.mod.log 2>&1; echo "demo on modified tree: exit $?"
tail -3 /tmp/confirm_$s.mod.log | cut -c1-300
echo "test suite on modified tree:"
env -u WELL_ID_DLISWRITER_VERIF PYTHONDONTWRITEBYTECODE=1 PYTHONPATH="$d/src" /venv/bin/python -m pytest -p no:cacheprovider --timeout=900 -q src/tests 2>&1 | tail -1 | cut -c1-200
} > "$out" 2>&1
cd /; git -C /repo worktree remove --force "$d"; rm -f /tmp/confirm_$s.*.log
