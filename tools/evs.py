import sys, json, collections
sys.path.insert(0,'/verif/harness')
import driver, scen, scen2, scen3
pid, pat = sys.argv[1], sys.argv[2]
gens=dict(scen.GENERATORS); gens.update(scen2.GENERATORS2); gens.update(getattr(scen3,'GENERATORS3',{}))
progs=[p for p in gens[pid]('quick',0) if pat in p['id']][:int(sys.argv[3]) if len(sys.argv)>3 else 2]
for t in driver.run_batch(progs):
    print('==', t['id'])
    for e in t['events']:
        print(' ', e['op'], e.get('outcome'), e.get('exc','')[:160], e.get('part',''), )
