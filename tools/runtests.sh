#!/bin/sh
# usage: runtests.sh <commit-ish>  -> /tmp/t1/tests_<short>.txt
c=$(git -C /repo rev-parse --short "$1")
d=/tmp/wt_$c
git -C /repo worktree add --detach "$d" "$1" >/dev/null 2>&1
cd "$d" && env -u WELL_ID_DLISWRITER_VERIF PYTHONDONTWRITEBYTECODE=1 PYTHONPATH="$d/src" /venv/bin/python -m pytest -p no:cacheprovider --timeout=900 -q -x 2>&1 | tail -2 | cut -c1-200 > /tmp/t1/tests_$c.txt
cd /; git -C /repo worktree remove --force "$d"
