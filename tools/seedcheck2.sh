#!/bin/sh
# usage: seedcheck2.sh <seed dir name> <prop> [<prop> ...]   scratch worktree of /repo HEAD (+ uncommitted diff) + patch; VERIF_REPO
s=$1; shift
wt=/tmp/sc2-$s
git -C /repo worktree remove --force $wt 2>/dev/null
git -C /repo worktree add --detach $wt HEAD >/dev/null 2>&1 || { echo "worktree failed"; exit 2; }
git -C /repo diff | (cd $wt && git apply --allow-empty 2>/dev/null)
(cd $wt && git apply /verif/seeded/$s/patch.diff) || { echo "patch does not apply"; git -C /repo worktree remove --force $wt; exit 2; }
for p in "$@"; do
  (cd /verif && VERIF_REPO=$wt VERIF_EVIDENCE_DIR=/tmp/sc2-ev ./check $p --tier quick 2>&1 | grep -v "^WARNING" | grep "VIOLATION\|MODEL-DRIFT\|MACHINERY\|tier=" | cut -c1-220 | sort | uniq -c | sort -rn | head -6)
done
git -C /repo worktree remove --force $wt
