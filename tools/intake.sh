#!/bin/sh
# usage: intake.sh <prop> <round letter> [<extra prop to check> ...]
# copies a sub-agent's deliverables from /tmp/seed<round>/<prop> to /verif/seeded/<prop>-<round>/, confirms (demo clean/modified,
# repository suite on the modified tree) and runs the property's quick check against a scratch worktree with the patch
p=$1; r=$2; shift; shift
src=/tmp/seed$r/$p; dst=/verif/seeded/$p-$r
mkdir -p $dst /tmp/seed$r/logs
(cd $src && git diff -- src/dliswriter > $dst/patch.diff)
cp $src/demo.py $src/notes.md $dst/ 2>/dev/null
/verif/tools/seedcheck2.sh $p-$r $p "$@" > /tmp/seed$r/logs/$p.check.log 2>&1
/verif/tools/confirm_seed.sh $p-$r
cat $dst/confirm.txt > /tmp/seed$r/logs/$p.confirm.log
