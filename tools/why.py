import sys, json, collections
sys.path.insert(0,'/verif/harness')
import driver, scen, scen2
pid=sys.argv[1]
gens=dict(scen.GENERATORS); gens.update(scen2.GENERATORS2)
progs=gens[pid]('quick',0)
tr=driver.run_batch(progs)
c=collections.Counter()
for t in tr:
    for e in t['events']:
        if e.get('outcome')=='raised':
            c[(e['op'], e.get('exc','')[:150])]+=1
for k,v in c.most_common(40): print(v,k)
