"""Line coverage of /repo/src/dliswriter under the quick scenario sets of all properties (developer tool, not a check).
Programs run in this process (not in pristine forks): the numbers say which code the specification ever observes."""
import os, sys, io, contextlib
os.environ.setdefault('WELL_ID_DLISWRITER_VERIF', '1')
sys.path.insert(0, '/verif/harness')
import coverage
cov = coverage.Coverage(source=['/repo/src/dliswriter'], data_file='/tmp/t1/.coverage', omit=['*/verif_hooks.py'])
cov.start()
import driver, scen, scen2, scen3, registry  # noqa
gens = dict(scen.GENERATORS); gens.update(scen2.GENERATORS2); gens.update(scen3.GENERATORS3)
tier = sys.argv[1] if len(sys.argv) > 1 else 'quick'
n = 0
devnull = os.open(os.devnull, os.O_WRONLY)
saved = os.dup(2); os.dup2(devnull, 2)
try:
    for pid in sorted(registry.REGISTRY):
        progs = list(gens[pid](tier, 0))
        for g in registry.REGISTRY[pid].get('extra_gen', []):
            if pid in ('C07', 'C14'):        # the model histories once
                progs += g(tier, 0)
        for p in progs:
            procs = p.get('procs') or [{'steps': p['steps']}]
            for k, pr in enumerate(procs):
                t = {'id': p['id'], 'steps': pr['steps'], 'arrays': p.get('arrays', {}), 'tz': p.get('tz'), 'np_seed': p.get('np_seed'),
                     '_proc': k + 1, '_oid0': 1000 * k + 1, '_fresh': bool(pr.get('fresh'))}
                try:
                    driver.run_program(t)
                except Exception as e:  # noqa
                    pass
                n += 1
finally:
    os.dup2(saved, 2)
cov.stop(); cov.save()
print('programs run:', n)
buf = io.StringIO()
cov.report(show_missing=True, file=buf, skip_covered=False)
print(buf.getvalue())
