SPECIFICATION Spec
CONSTANTS
  MaxLf = 1
  MaxCalls = 4
  Names = {"A"}
  SetNames = {0}
  Classes = {"ZONE"}
  OriginRefs = {0, 1}
  RefFrom = "NONE"
  RefTo = "NONE"
  HeaderShare = FALSE
  OkSet = {TRUE, FALSE}
  ForeignRefCheck = TRUE
  HeaderSetCheck = TRUE
  Mutations = FALSE
  CopyRule = "firstfree"
  ItemRefs = {0, 1}
INVARIANT PrintLeaf
CHECK_DEADLOCK FALSE
