--------------------------------- MODULE PrimModel ---------------------------------
(***************************************************************************)
(* Cross-check of the primitive codecs of RP66Prim: the arithmetic         *)
(* encoders and the positional decoders were written independently; this   *)
(* model walks boundary-complete value domains and requires                *)
(*   Dec(Enc(v) ++ junk) = <<v, Len(Enc(v))>>   (round trip, prefix-free)  *)
(* plus the representability edges of every code.                          *)
(***************************************************************************)
EXTENDS RP66EFLR, TLC

CONSTANT Big      \* TRUE: thorough domains

VARIABLE c        \* the current case
vars == << c >>

Pow2 == { 2 ^ k : k \in 0..30 }
Around(S, d) == UNION { { x - i : i \in 0..d } \cup { x + i : i \in 0..d } : x \in S }

Edges == {0, 127, 128, 255, 256, 16383, 16384, 32767, 32768, 65535, 65536, 1073741823}
NatDom == { n \in Around(Edges \cup Pow2, IF Big THEN 8 ELSE 2) \cup (0..(IF Big THEN 20000 ELSE 600)) : n >= 0 /\ n < 2147480000 }

ToLim(neg, n) == Lim(neg /\ n # 0, n \div 65536, n % 65536)
SpecialLims == { Lim(FALSE, 32768, 0), Lim(TRUE, 32768, 0), Lim(TRUE, 32768, 1), Lim(FALSE, 65535, 65535), Lim(FALSE, 65536, 0),
                 Lim(FALSE, 32767, 65535), Lim(FALSE, 16384, 0), Lim(FALSE, 16383, 65535), Lim(TRUE, 32767, 65535) }

IntCases == { [k |-> "int", code |-> cd, v |-> ToLim(s, n)] : cd \in IntCodes \cup {STATUS}, s \in BOOLEAN, n \in NatDom }
         \cup { [k |-> "int", code |-> cd, v |-> l] : cd \in IntCodes \cup {STATUS}, l \in SpecialLims }

StrOf(n) == [i \in 1..n |-> 32 + ((i * 7 + n) % 95)]
StrLens == IF Big THEN 0..300 ELSE {0, 1, 2, 126, 127, 128, 129, 254, 255, 256, 300}
StrCases == { [k |-> "str", code |-> cd, s |-> StrOf(n)] : cd \in {IDENT, ASCII, UNITS}, n \in StrLens }
         \cup { [k |-> "str", code |-> ASCII, s |-> StrOf(n)] : n \in {16383, 16384, 16385} }
         \cup { [k |-> "str", code |-> cd, s |-> << 65, 200, 66 >>] : cd \in {IDENT, ASCII, UNITS} }

DtCases == { [k |-> "dt", code |-> DTIME, t |-> [y |-> y, mo |-> mo, d |-> d, h |-> h, mi |-> mi, s |-> s, us |-> us]] :
               y \in {1899, 1900, 1987, 2155, 2156}, mo \in {1, 12}, d \in {1, 31}, h \in {0, 23}, mi \in {0, 59}, s \in {0, 59},
               us \in {0, 499, 500, 999, 1000, 1500, 999499, 999500, 999999} }

ObCases == { [k |-> "ob", code |-> cd, o |-> [origin |-> LimOfNat(o), copy |-> LimOfNat(cp), name |-> StrOf(nl), type |-> StrOf(tl)]] :
               cd \in {OBNAME, OBJREF}, o \in {0, 127, 128, 16383, 16384, 1073741823, 1073741824}, cp \in {0, 255, 256},
               nl \in {0, 1, 127, 128, 255, 256}, tl \in {0, 7, 255, 256} }

AllCases == IntCases \cup StrCases \cup DtCases \cup ObCases

Init == c \in AllCases

(* walk to a neighbouring case (keeps the model a state machine: every case is also reached by a step) *)
NextCase ==
  \/ c.k = "int" /\ ~c.v.neg /\ c.v.lo < 65535 /\ c' = [c EXCEPT !.v.lo = @ + 1] /\ c' \in IntCases
  \/ c.k = "str" /\ c' = [c EXCEPT !.s = StrOf(Len(c.s) + 1)] /\ c' \in StrCases
  \/ c.k = "dt" /\ c.t.us = 0 /\ c' = [c EXCEPT !.t.us = 499]
  \/ c.k = "ob" /\ c.o.copy.lo = 0 /\ c' = [c EXCEPT !.o.copy = LimOfNat(255)]

Spec == Init /\ [][NextCase]_vars

Junk == << 201, 7, 255 >>

RoundTrip ==
  CASE c.k = "int" ->
         IntRepresentable(c.code, c.v) =>
           LET e == EncInt(c.code, c.v)   d == DecInt(c.code, e \o Junk, 1) IN
             /\ Bytes(e) /\ d.ok /\ d.v = c.v /\ d.n = Len(e)
             /\ (c.code # UVARI => Len(e) = FixedSize(c.code))
             /\ OneLen(c.code, e \o Junk, 1) = Len(e)
    [] c.k = "str" /\ c.code \in {IDENT, UNITS} ->
         IdentRepresentable(c.s) =>
           LET e == EncIdent(c.s)   d == DecIdent(e \o Junk, 1) IN d.ok /\ d.s = c.s /\ d.n = Len(e) /\ IdentLen(e \o Junk, 1) = Len(e)
    [] c.k = "str" /\ c.code = ASCII ->
         AsciiRepresentable(c.s) =>
           LET e == EncAscii(c.s)   d == DecAscii(e \o Junk, 1) IN d.ok /\ d.s = c.s /\ d.n = Len(e) /\ AsciiLen(e \o Junk, 1) = Len(e)
    [] c.k = "dt" ->
         DtimeRepresentable(c.t) /\ DtimeFieldsOk(c.t) =>
           \A e \in EncDtimeSet(c.t) :
             LET d == DecDtime(e \o Junk, 1) IN
               /\ Len(e) = 8 /\ Bytes(e) /\ d.ok /\ d.y = c.t.y - 1900 /\ d.tz = 2 /\ d.mo = c.t.mo /\ d.d = c.t.d /\ d.h = c.t.h
               /\ d.mi = c.t.mi /\ d.s = c.t.s /\ d.ms \in 0..999 /\ d.ms * 1000 <= c.t.us + 999 /\ c.t.us < (d.ms + 1) * 1000 + 999
    [] c.k = "ob" /\ c.code = OBNAME ->
         ObnameRepresentable(c.o) =>
           LET e == EncObname(c.o)   d == DecObname(e \o Junk, 1) IN
             d.ok /\ LimOfNat(d.origin) = c.o.origin /\ d.copy = c.o.copy.lo /\ d.name = c.o.name /\ d.n = Len(e) /\ ObnameLen(e \o Junk, 1) = Len(e)
    [] c.k = "ob" /\ c.code = OBJREF ->
         ObjrefRepresentable(c.o) =>
           LET e == EncObjref(c.o)   d == DecObjref(e \o Junk, 1) IN
             d.ok /\ d.type = c.o.type /\ LimOfNat(d.origin) = c.o.origin /\ d.copy = c.o.copy.lo /\ d.name = c.o.name /\ d.n = Len(e)
    [] OTHER -> TRUE

(* UVARI: the three forms partition 0 .. 2^30-1 exactly at 127|128 and 16383|16384 *)
UvariForm ==
  (c.k = "int" /\ c.code = UVARI /\ IntRepresentable(UVARI, c.v)) =>
     LET n == LimToInt(c.v)   e == EncInt(UVARI, c.v) IN
       /\ (n < 128 <=> Len(e) = 1) /\ (n >= 128 /\ n < 16384 <=> Len(e) = 2) /\ (n >= 16384 <=> Len(e) = 4)
       /\ (Len(e) = 1 => e[1] < 128) /\ (Len(e) = 2 => e[1] \in 128..191) /\ (Len(e) = 4 => e[1] \in 192..255)

(* representability is exactly the range of each code *)
RangeEdges ==
  c.k = "int" =>
    LET small == c.v.hi = 0   n == c.v.lo IN
      /\ (c.code = USHORT => (IntRepresentable(USHORT, c.v) <=> (~c.v.neg /\ small /\ n <= 255)))
      /\ (c.code = SSHORT => (IntRepresentable(SSHORT, c.v) <=> (small /\ IF c.v.neg THEN n <= 128 ELSE n <= 127)))
      /\ (c.code = UNORM  => (IntRepresentable(UNORM, c.v) <=> (~c.v.neg /\ small)))
      /\ (c.code = SLONG  => (IntRepresentable(SLONG, c.v) <=> LimLess(Lim(TRUE, 32768, 1), c.v) /\ LimLess(c.v, Lim(FALSE, 32768, 0))))
      /\ (c.code = ULONG  => (IntRepresentable(ULONG, c.v) <=> ~c.v.neg /\ LimLess(c.v, Lim(FALSE, 65536, 0))))
      /\ (c.code = UVARI  => (IntRepresentable(UVARI, c.v) <=> ~c.v.neg /\ LimLess(c.v, Lim(FALSE, 16384, 0))))

StrEdges ==
  c.k = "str" =>
     /\ (c.code \in {IDENT, UNITS} => (IdentRepresentable(c.s) <=> Len(c.s) <= 255 /\ \A i \in DOMAIN c.s : c.s[i] < 128))
     /\ (c.code = ASCII => (AsciiRepresentable(c.s) <=> \A i \in DOMAIN c.s : c.s[i] < 128))
=====================================================================================
