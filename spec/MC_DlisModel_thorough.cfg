SPECIFICATION Spec
CONSTANTS
  MaxLf = 2
  MaxCalls = 6
  Names = {"A", "B"}
  SetNames = {0, 1}
  Classes = {"CHANNEL", "ZONE"}
  OriginRefs = {0, 1, 5}
  RefFrom = "NONE"
  RefTo = "NONE"
  HeaderShare = FALSE
  OkSet = {TRUE, FALSE}
  ForeignRefCheck = TRUE
  HeaderSetCheck = TRUE
  Mutations = FALSE
  CopyRule = "firstfree"
  ItemRefs = {0, 7}
VIEW View
INVARIANT IdentityUnique
INVARIANT RefResolves
INVARIANT HeaderOwn
INVARIANT OriginResolves
INVARIANT Isolation
INVARIANT Completeness
INVARIANT ViewUnique
INVARIANT FlagDiscipline
INVARIANT CopyNumbersDense
INVARIANT CopyNumbersDistinct
INVARIANT ProgressTotalCovers
PROPERTY RejectedIsNoOp
CHECK_DEADLOCK FALSE
