SPECIFICATION Spec
CONSTANT Big = TRUE
INVARIANT RoundTrip
INVARIANT UvariForm
INVARIANT RangeEdges
INVARIANT StrEdges
CHECK_DEADLOCK FALSE
