SPECIFICATION Spec
CONSTANT Big = FALSE
INVARIANT RoundTrip
INVARIANT UvariForm
INVARIANT RangeEdges
INVARIANT StrEdges
CHECK_DEADLOCK FALSE
