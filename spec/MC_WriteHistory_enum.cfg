SPECIFICATION Spec
CONSTANTS
  MaxOps = 3
  ValSet <- KSmall
  DataSet <- DSmall
  WinSet = {"all", "win"}
  PinSet <- PSmall
  CastSet = {"f4", "f8"}
  Typed = TRUE
  BypassFloat = TRUE
  BypassRef = TRUE
  Invalidate = TRUE
  MarkDerived = TRUE
  FlagAfterValidation = TRUE
  SameCastShortcut = FALSE
  DerivedByIdentity = TRUE
  GuessEachTime = TRUE
  CountLive = TRUE
  LabelLive = TRUE
  PayloadLive = TRUE
  FileIdFollowsHeader = TRUE
  DimFollowsData = TRUE
INVARIANT PrintLeaf
CHECK_DEADLOCK FALSE
