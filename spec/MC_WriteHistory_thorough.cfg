SPECIFICATION Spec
CONSTANTS
  MaxOps = 6
  ValSet <- KAll
  DataSet <- DAll
  WinSet = {"all", "win"}
  PinSet <- PAll
  CastSet = {"f4", "f8"}
  Typed = TRUE
  BypassFloat = TRUE
  BypassRef = TRUE
  Invalidate = TRUE
  MarkDerived = TRUE
  FlagAfterValidation = TRUE
  SameCastShortcut = FALSE
  DerivedByIdentity = TRUE
  GuessEachTime = TRUE
  CountLive = TRUE
  LabelLive = TRUE
  PayloadLive = TRUE
  FileIdFollowsHeader = TRUE
  DimFollowsData = TRUE
VIEW noHist
INVARIANT HistoryIndependent
INVARIANT NoStaleCount
PROPERTY RejectedIsNoOp
CHECK_DEADLOCK FALSE
