--------------------------------- MODULE ChannelDims ---------------------------------
(***************************************************************************)
(* Implementation-shaped model of how a channel's DIMENSION and            *)
(* ELEMENT-LIMIT are settled at write time:                                *)
(*   ChannelItem._set_dimension_from_data   (from the data, per write)     *)
(*   ChannelItem._run_checks_and_set_defaults (when the item is written)   *)
(* over what the user may have supplied.  A dimension / limit is a         *)
(* sequence of naturals; << >> = not given.  One state = one combination;  *)
(* the obligations are the C08 clauses on what is written.                 *)
(***************************************************************************)
EXTENDS Naturals, Sequences, TLC

CONSTANTS Widths      \* per-row shapes of the data: 0 = scalar channel, n > 0 = n samples per row

VARIABLES width, udim, ulim, pc, dim, lim

vars == << width, udim, ulim, pc, dim, lim >>

DataDim(w) == IF w = 0 THEN << 1 >> ELSE << w >>

Choices(w) == { << >>, DataDim(w), << DataDim(w)[1] + 1 >>, << DataDim(w)[1] + 5 >>,
                IF DataDim(w)[1] > 0 THEN << DataDim(w)[1] - 1 >> ELSE << 0 >>, << DataDim(w)[1], 4 >> }

Init ==
  /\ width \in Widths
  /\ udim \in Choices(width) /\ ulim \in Choices(width)
  /\ pc = "data" /\ dim = udim /\ lim = ulim

(* element limit el is valid for dimension d                               *)
Bounds(el, d) == Len(el) >= Len(d) /\ \A i \in DOMAIN d : el[i] >= d[i]

(* _set_dimension_from_data                                                 *)
FromData ==
  /\ pc = "data"
  /\ LET d == DataDim(width) IN
     IF dim # d /\ dim # << >> THEN pc' = "raised" /\ UNCHANGED << dim, lim >>
     ELSE IF lim # d /\ lim # << >> /\ ~Bounds(lim, d) THEN pc' = "raised" /\ UNCHANGED << dim, lim >>
     ELSE dim' = d /\ lim' = d /\ pc' = "write"           \* the limit is made equal to the dimension (documented coupling)
  /\ UNCHANGED << width, udim, ulim >>

(* _run_checks_and_set_defaults                                             *)
WriteItem ==
  /\ pc = "write"
  /\ IF lim = << >> /\ dim # << >> THEN lim' = dim /\ dim' = dim /\ pc' = "done"
     ELSE IF dim = << >> /\ lim # << >> THEN dim' = lim /\ lim' = lim /\ pc' = "done"
     ELSE IF lim # dim /\ ~Bounds(lim, dim) THEN pc' = "raised" /\ UNCHANGED << dim, lim >>
     ELSE pc' = "done" /\ UNCHANGED << dim, lim >>
  /\ UNCHANGED << width, udim, ulim >>

Next == FromData \/ WriteItem
Spec == Init /\ [][Next]_vars

(* ======================= obligations (C08) =============================== *)
(* what is written describes the data: DIMENSION = per-row shape, ELEMENT-LIMIT bounds it *)
Truthful == pc = "done" => dim = DataDim(width) /\ Bounds(lim, dim)

(* a user-supplied dimension that contradicts the data is never written    *)
Contradiction == (udim # << >> /\ udim # DataDim(width)) => pc # "done"

(* consistent input is writable (C15): dimension unset or right, limit unset or bounding *)
Writable == ((udim = << >> \/ udim = DataDim(width)) /\ (ulim = << >> \/ Bounds(ulim, DataDim(width)))) => pc # "raised"
=====================================================================================
