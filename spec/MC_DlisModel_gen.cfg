SPECIFICATION Spec
CONSTANTS
  MaxLf = 2
  MaxCalls = 7
  Names = {"A", "B"}
  SetNames = {0, 1}
  Classes = {"CHANNEL", "ZONE"}
  OriginRefs = {0, 1}
  RefFrom = "NONE"
  RefTo = "NONE"
  HeaderShare = FALSE
  OkSet = {TRUE, FALSE}
  ForeignRefCheck = TRUE
  HeaderSetCheck = TRUE
  Mutations = FALSE
  CopyRule = "firstfree"
  ItemRefs = {0, 5}
INVARIANT PrintLeaf
CHECK_DEADLOCK FALSE
