SPECIFICATION Spec
CONSTANTS
  MaxLf = 2
  MaxCalls = 7
  Names = {"A", "B"}
  SetNames = {0, 1}
  Classes = {"CHANNEL", "ZONE"}
  OriginRefs = {0, 5}
  ItemRefs = {0, 5}
INVARIANT PrintLeaf
CHECK_DEADLOCK FALSE
