SPECIFICATION Spec
CONSTANTS
  MaxLf = 1
  MaxCalls = 6
  Names = {"A", "B"}
  SetNames = {0}
  Classes = {"ZONE", "PARAMETER"}
  OriginRefs = {0}
  RefFrom = "PARAMETER"
  RefTo = "ZONE"
  HeaderShare = FALSE
  OkSet = {TRUE}
  ForeignRefCheck = TRUE
  HeaderSetCheck = TRUE
  Mutations = TRUE
  CopyRule = "firstfree"
  ItemRefs = {0, 7}
VIEW View
INVARIANT IdentityUnique
INVARIANT RefResolves
INVARIANT OriginResolves
INVARIANT Isolation
INVARIANT Completeness
INVARIANT ViewUnique
INVARIANT CopyNumbersDense
INVARIANT CopyNumbersDistinct
PROPERTY RejectedIsNoOp
CHECK_DEADLOCK FALSE
