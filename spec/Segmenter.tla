--------------------------------- MODULE Segmenter ---------------------------------
(***************************************************************************)
(* Implementation-shaped model of dliswriter's writer pipeline:            *)
(*                                                                         *)
(*   DLISWriter.write_storage_unit_label     -> WriteSUL                   *)
(*   for lr in logical_records:              -> BeginRecord                *)
(*     for seg in lr.make_segments(vrl - 8): -> SegmentStep (one iteration *)
(*                                              of the split loop)         *)
(*       output.add_bytes(make_visible_record(seg))  -> Emit               *)
(*   output.pass_bytes_to_writer()           -> FinalFlush                 *)
(*   ByteWriter.write_bytes ('wb' first, then 'ab')  -> inside Flush(...)  *)
(*                                                                         *)
(* The model produces real bytes (body byte i of record r is a function of *)
(* r and i), so the normative reader RP66Frame is evaluated directly on    *)
(* the modelled disk content.  Invariants and action properties at the end *)
(* of this module are the C01 / C02 / C10 / C15 obligations.               *)
(***************************************************************************)
EXTENDS RP66Frame, TLC

CONSTANTS
  VRLs,          \* set of maximum visible record lengths to explore
  MaxRecs,       \* queue length 1..MaxRecs
  LenSet(_, _),  \* LenSet(cap, nrec): record body lengths to explore for that capacity / queue length
  BufSizes(_)    \* BufSizes(vrl): output chunk sizes to explore

VARIABLES
  vrl,        \* maximum record length (label + writer)
  queue,      \* sequence of [eflr, type, len]
  bufSize,    \* output chunk size
  r,          \* index of the record being segmented
  start,      \* make_segments: start_pos
  remaining,  \* make_segments: remaining_size
  pending,    \* the segment produced by the last SegmentStep, not yet wrapped ( << >> = none )
  pc,         \* "sul" | "begin" | "seg" | "emit" | "final" | "done" | "raised"
  buf,        \* bytes held by BufferedOutput
  disk,       \* bytes in the file
  append,     \* ByteWriter._append
  total,      \* ByteWriter._total_size
  emitted,    \* history: concatenation of every visible record handed to add_bytes (observation only)
  nflush      \* number of physical writes

vars == << vrl, queue, bufSize, r, start, remaining, pending, pc, buf, disk, append, total, emitted, nflush >>

cap == vrl - 8

BodyByte(rec, i) == (rec * 101 + i * 7) % 251
Body(rec, len)   == [i \in 1..len |-> BodyByte(rec, i)]

Digits5(n) ==   \* right-justified in 5 characters
  LET d == << (n \div 10000) % 10, (n \div 1000) % 10, (n \div 100) % 10, (n \div 10) % 10, n % 10 >>
      lead(i) == \A j \in 1..(i-1) : d[j] = 0
  IN [i \in 1..5 |-> IF i < 5 /\ d[i] = 0 /\ lead(i) THEN 32 ELSE 48 + d[i]]

SulBytes(v) == << 32, 32, 32, 49 >> \o SulVersionBytes \o SulStructureBytes \o Digits5(v)
               \o [i \in 1..60 |-> IF i = 1 THEN 88 ELSE 32]

RecTypes == { [eflr |-> TRUE, type |-> 3], [eflr |-> FALSE, type |-> 0], [eflr |-> FALSE, type |-> 1] }

Init ==
  /\ vrl \in VRLs
  /\ \E n \in 1..MaxRecs :
       queue \in [1..n -> { [eflr |-> t.eflr, type |-> t.type, len |-> l] : t \in RecTypes, l \in LenSet(vrl - 8, n) }]
  /\ bufSize \in BufSizes(vrl)
  /\ r = 0 /\ start = 0 /\ remaining = 0 /\ pending = << >>
  /\ pc = "sul"
  /\ buf = << >> /\ disk = << >> /\ append = FALSE /\ total = 0 /\ emitted = << >> /\ nflush = 0

(* ByteWriter.write_bytes(bts): 'wb' replaces, 'ab' appends                *)
WriteBytes(bts) ==
  /\ disk'   = IF append THEN disk \o bts ELSE bts
  /\ append' = TRUE
  /\ total'  = total + Len(bts)
  /\ nflush' = nflush + 1

WriteSUL ==
  /\ pc = "sul"
  /\ WriteBytes(SulBytes(vrl))
  /\ pc' = "begin"
  /\ UNCHANGED << vrl, queue, bufSize, r, start, remaining, pending, buf, emitted >>

(* next logical record: represent_as_bytes().make_segments(cap) starts     *)
BeginRecord ==
  /\ pc = "begin"
  /\ IF r = Len(queue)
     THEN pc' = "final" /\ UNCHANGED << r, start, remaining >>
     ELSE /\ r' = r + 1 /\ start' = 0 /\ remaining' = queue[r + 1].len
          /\ pc' = IF cap < 12 THEN "raised" ELSE "seg"
  /\ UNCHANGED << vrl, queue, bufSize, pending, buf, disk, append, total, emitted, nflush >>

(* one iteration of the while loop of make_segments + make_segment         *)
SegmentStep ==
  /\ pc = "seg"
  /\ IF remaining = 0
     THEN pc' = "begin" /\ UNCHANGED << start, remaining, pending >>
     ELSE LET n0   == Min2(remaining, cap)
              f0   == remaining - n0
              sh   == 0 < f0 /\ f0 < 12
              n    == IF sh THEN n0 - (12 - f0) ELSE n0
              f    == IF sh THEN 12 ELSE f0
              rec  == queue[r]
              len0 == n + 4
              pad0 == IF len0 % 2 = 1 THEN 1 ELSE 0
              pad  == IF len0 + pad0 < 16 THEN 16 - len0 ELSE pad0      \* flagged padding up to the 16-byte minimum
              size == len0 + pad
              attr == (IF rec.eflr THEN 128 ELSE 0) + (IF start # 0 THEN 64 ELSE 0)
                      + (IF start + n # rec.len THEN 32 ELSE 0) + (IF pad > 0 THEN 1 ELSE 0)
              seg  == U16BE(size) \o << attr, rec.type >>
                      \o [i \in 1..n |-> BodyByte(r, start + i)] \o [i \in 1..pad |-> pad]
          IN IF n < 1 THEN pc' = "raised" /\ UNCHANGED << start, remaining, pending >>
             ELSE /\ pending' = seg /\ start' = start + n /\ remaining' = f /\ pc' = "emit"
  /\ UNCHANGED << vrl, queue, bufSize, r, buf, disk, append, total, emitted, nflush >>

(* _make_visible_record + BufferedOutput.add_bytes                          *)
Emit ==
  /\ pc = "emit"
  /\ LET size == Len(pending) + 4
         vr   == U16BE(size) \o << 255, 1 >> \o pending
     IN IF size > vrl
        THEN pc' = "raised" /\ UNCHANGED << buf, disk, append, total, emitted, nflush >>
        ELSE /\ pc' = "seg"
             /\ emitted' = emitted \o vr
             /\ IF Len(buf) + size > bufSize
                THEN WriteBytes(buf) /\ buf' = vr        \* pass_bytes_to_writer, fresh buffer, then add
                ELSE buf' = buf \o vr /\ UNCHANGED << disk, append, total, nflush >>
  /\ pending' = << >>
  /\ UNCHANGED << vrl, queue, bufSize, r, start, remaining >>

FinalFlush ==
  /\ pc = "final"
  /\ WriteBytes(buf) /\ buf' = << >>
  /\ pc' = "done"
  /\ UNCHANGED << vrl, queue, bufSize, r, start, remaining, pending, emitted >>

Next == WriteSUL \/ BeginRecord \/ SegmentStep \/ Emit \/ FinalFlush
Spec == Init /\ [][Next]_vars

(* ======================= obligations ===================================== *)
ValidInput == vrl % 2 = 0 /\ vrl >= 20 /\ vrl <= 16384 /\ bufSize >= vrl

(* C15: every valid input is writable                                      *)
Writable == ValidInput => pc # "raised"

(* the records a reader must get back: empty bodies produce no record      *)
ExpectedRecs ==
  LET idx == SelectSeq([i \in 1..Len(queue) |-> i], LAMBDA i : queue[i].len > 0)
  IN [k \in 1..Len(idx) |-> [eflr |-> queue[idx[k]].eflr, type |-> queue[idx[k]].type, body |-> Body(idx[k], queue[idx[k]].len)]]

(* C01 + C02 at the end of a write: strict reader accepts, records come back *)
FinalWellFormed ==
  pc = "done" =>
    LET rd == ReadAll(disk) IN
      /\ rd.bad = {}
      /\ RecordClauses(rd.recs, ExpectedRecs) = {}
      /\ SulClauses(disk, [seq |-> 1, vrl |-> vrl, setid |-> << 88 >>]) = {}

(* C10: at any moment the file holds the label plus whole visible records   *)
DiskOnBoundary ==
  (pc \notin {"sul", "raised"}) =>
    LET rd == ReadAll(disk) IN rd.bad \subseteq {"C02.RecordTerminated"}

(* C10: buffering is transparent: disk ++ buffer = label ++ everything emitted *)
ChunkInvisible == (pc \notin {"sul", "raised"}) => disk \o buf = SulBytes(vrl) \o emitted

(* C10: reported total = size of the file                                   *)
TotalIsSize == total = Len(disk)

(* C10: the file only grows, by appending (action property)                 *)
DiskIsPrefix == [][ (pc # "sul") => (Len(disk) <= Len(disk') /\ SubSeq(disk', 1, Len(disk)) = disk) ]_vars

(* a buffer never exceeds its size (so a flush never splits a record)       *)
BufferBounded == Len(buf) <= bufSize

=====================================================================================
