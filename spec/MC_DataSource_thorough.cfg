SPECIFICATION Spec
CONSTANT CheckBounds = TRUE
CONSTANT CheckShort = TRUE
CONSTANT CheckMapping = TRUE
CONSTANT MaxRows = 9
INVARIANT WindowRows
INVARIANT Served
INVARIANT Rejected
INVARIANT InOrder
INVARIANT NoWriteThrough
INVARIANT SecondColumn
INVARIANT MappingHonoured
CHECK_DEADLOCK FALSE
