SPECIFICATION Spec
CONSTANT CheckBounds = TRUE
CONSTANT CheckShort = TRUE
CONSTANT MaxRows = 9
INVARIANT WindowRows
INVARIANT Served
INVARIANT Rejected
INVARIANT InOrder
INVARIANT NoWriteThrough
INVARIANT SecondColumn
CHECK_DEADLOCK FALSE
