--------------------------------- MODULE DataSource ---------------------------------
(***************************************************************************)
(* Implementation-shaped model of the data path:                           *)
(*   SourceDataWrapper.__init__        from_idx / to_idx / n_rows          *)
(*   make_chunked_generator(chunk)     divmod(n_rows, chunk) full chunks   *)
(*                                     + remainder chunk                   *)
(*   load_chunk(start, stop)           general path: copy of rows          *)
(*                                     from_idx+start .. from_idx+stop-1   *)
(*   NumpyDataWrapper.load_chunk       fast path (source dtype = target):  *)
(*                                     a slice (view) of the source        *)
(*   MultiFrameData.__next__           frame number = ++_i                 *)
(* Rows are identified by their index in the source, so "the file holds    *)
(* exactly rows from..to-1, in order, numbered 1..n" (C03, C11) and "input *)
(* chunking is invisible" (C10) are statements about `out`.  `aliased`     *)
(* records that a chunk is a view on the caller's array; no action writes  *)
(* through it (C19).                                                       *)
(***************************************************************************)
EXTENDS Naturals, Integers, Sequences, FiniteSets, TLC

CONSTANTS MaxRows,
          CheckShort,    \* TRUE: a later data set of the frame with fewer rows than are to be loaded is refused (this tree, F40); FALSE: before -
                         \* the rows are cut from it all the same (a single row was broadcast, other lengths failed inside numpy)
          CheckMapping,  \* TRUE: the fast path also requires every field to be read under its own name (this tree, F39); FALSE: before
          CheckBounds    \* TRUE: a negative from_idx and a chunk size below 1 are refused (this tree); FALSE: the behaviour before
                         \* that repair - no chunk is cut for a chunk size below 1 and the write ends without rows

NoChunk == 100           \* input_chunk_size = None

VARIABLES
  total,     \* rows in the source (its first data set: the row count is taken from there)
  total2,    \* rows of a later data set of the same frame
  from, to,  \* window (to = -1: open ended)
  chunk,     \* input_chunk_size (NoChunk = None; 0 and negative values are what a caller may pass by mistake)
  crossed,   \* the dataset names cross the channel names (channel A reads field B, channel B reads field A)
  kind,      \* "copy" | "fast": the target dtype differs from / equals the dtype of the structured source
  pc,        \* "init" | "gen" | "done" | "raised"
  nrows,     \* SourceDataWrapper._n_rows
  full, rem, \* n_full_chunks, remainder_rows
  ci,        \* index of the next chunk
  pending,   \* rows of the current chunk not yet consumed by MultiFrameData
  out,       \* sequence of [row, fno] handed to FrameData
  i,         \* MultiFrameData._i
  aliased,   \* some chunk handed out was a view of the caller's array
  written    \* the model wrote through such a view (never)

vars == << total, total2, crossed, from, to, chunk, kind, pc, nrows, full, rem, ci, pending, out, i, aliased, written >>

Init ==
  /\ total \in 1..MaxRows
  /\ total2 \in 1..(MaxRows + 1)
  /\ from \in (-2)..MaxRows
  /\ to \in {-1} \cup (0..(MaxRows + 1))
  /\ chunk \in {NoChunk} \cup ((-2)..(MaxRows + 1))
  /\ kind \in {"copy", "fast"}
  /\ crossed \in BOOLEAN
  /\ pc = "init" /\ nrows = 0 /\ full = 0 /\ rem = 0 /\ ci = 0 /\ pending = << >> /\ out = << >> /\ i = 0
  /\ aliased = FALSE /\ written = FALSE

ToIdx == IF to = -1 THEN total ELSE to

(* SourceDataWrapper.__init__ + make_chunked_generator set-up              *)
Setup ==
  /\ pc = "init"
  /\ LET n == ToIdx - from IN
     IF from >= total \/ n < 1 \/ (CheckShort /\ total2 < ToIdx) \/ (CheckBounds /\ (from < 0 \/ (chunk # NoChunk /\ chunk < 1)))
     THEN pc' = "raised" /\ UNCHANGED << nrows, full, rem >>
     ELSE IF chunk # NoChunk /\ chunk < 1
     THEN pc' = "done" /\ UNCHANGED << nrows, full, rem >>      \* (historical) divmod by a negative size: no chunk, no rows, no error
     ELSE /\ nrows' = n
          /\ IF chunk = NoChunk THEN full' = 1 /\ rem' = 0
             ELSE full' = n \div chunk /\ rem' = n % chunk
          /\ pc' = "gen"
  /\ UNCHANGED << total, total2, crossed, from, to, chunk, kind, ci, pending, out, i, aliased, written >>

(* NumpyDataWrapper.load_chunk hands out a slice of the source when the dtypes are equal (and, since F39, no name is crossed) *)
TakenFast == kind = "fast" /\ (CheckMapping => ~crossed)

(* load_chunk(start, stop): rows of the source addressed by the chunk      *)
ChunkRows(start, stop) == [k \in 1..(stop - start) |-> from + start + k - 1]

LoadChunk ==
  /\ pc = "gen" /\ pending = << >> /\ i < nrows
  /\ LET c == IF chunk = NoChunk THEN nrows ELSE chunk
         start == ci * c
         stop  == IF ci < full THEN (ci + 1) * c ELSE nrows
     IN IF stop > nrows \/ stop < start \/ from + stop > total
        THEN pc' = "raised" /\ UNCHANGED << pending, ci, aliased >>
        ELSE /\ pending' = ChunkRows(start, stop)
             /\ ci' = ci + 1
             /\ aliased' = (aliased \/ TakenFast)
             /\ UNCHANGED pc
  /\ UNCHANGED << total, total2, crossed, from, to, chunk, kind, nrows, full, rem, out, i, written >>

(* MultiFrameData.__next__: one FrameData per row of the chunk             *)
NextFrameData ==
  /\ pc = "gen" /\ pending # << >> /\ i < nrows
  /\ i' = i + 1
  /\ out' = Append(out, [row |-> Head(pending), fno |-> i + 1, own |-> ~(TakenFast /\ crossed)])    \* own: every channel got its mapped field
  /\ pending' = Tail(pending)
  /\ UNCHANGED << total, total2, crossed, from, to, chunk, kind, pc, nrows, full, rem, ci, aliased, written >>

Finish ==
  /\ pc = "gen" /\ i >= nrows
  /\ pc' = "done"
  /\ UNCHANGED << total, total2, crossed, from, to, chunk, kind, nrows, full, rem, ci, pending, out, i, aliased, written >>

Next == Setup \/ LoadChunk \/ NextFrameData \/ Finish
Spec == Init /\ [][Next]_vars

(* ======================= obligations ===================================== *)
ValidWindow == from >= 0 /\ from < total /\ ToIdx <= total /\ ToIdx - from >= 1 /\ ToIdx <= total2
ValidChunk  == chunk = NoChunk \/ chunk >= 1

(* C03 / C11: exactly the rows of the window, in order, numbered from 1     *)
WindowRows ==
  pc = "done" => /\ Len(out) = ToIdx - from
                 /\ \A k \in DOMAIN out : out[k].row = from + k - 1 /\ out[k].fno = k

(* C10 / C11: a valid window is always served, whatever the chunk size and the path *)
Served == (ValidWindow /\ ValidChunk) => pc # "raised"

(* an invalid window never yields records                                   *)
Rejected == (~(ValidWindow /\ ValidChunk) /\ pc \in {"done"}) => FALSE

(* rows are only handed out in order (also in intermediate states)          *)
InOrder == \A k \in DOMAIN out : out[k].row = from + k - 1 /\ out[k].fno = k

(* C19: nothing is written through a view of the caller's data              *)
NoWriteThrough == ~written
(* every row served exists in the later data set too (C12: unequal row counts; longer later data sets are known finding K02) *)
(* C11: slot order / content follows the channel -> data set mapping, never the source's field order *)
MappingHonoured == \A k \in DOMAIN out : out[k].own
SecondColumn == \A k \in DOMAIN out : out[k].row < total2
=====================================================================================
