--------------------------------- MODULE DlisModel ---------------------------------
(***************************************************************************)
(* Implementation-shaped model of the object registry of one DLISFile:     *)
(*                                                                         *)
(*   DLISFile._eflr_sets      one registry per physical file, keyed by     *)
(*                            (class, set name), shared by all logical     *)
(*                            files                          -> reg        *)
(*   LogicalFile._eflr_sets   per logical file a view on it, in first-use  *)
(*                            order                          -> view       *)
(*   EFLRItem                 name, copy number (same-named items in the   *)
(*                            parent set at construction), origin reference*)
(*                            (explicit, or the default of the logical     *)
(*                            file, or none until an origin is added)      *)
(*   LogicalFile.add_origin   numbering and back-filling                   *)
(*   item.name = ... /        mutation after creation: the copy number of  *)
(*   item.origin_reference =  a renamed item, the origin chosen later      *)
(*   high_compatibility_mode  save / restore of the global flag            *)
(*   DLISFile.generator       what a write emits, per logical file         *)
(*                                                                         *)
(* One action per public call; a rejected call (ok = FALSE) follows the    *)
(* code: the parent set is created in the registry of the physical file,   *)
(* but it is registered in the logical file only once the item exists.     *)
(* The invariants at the end are the model-level statements of C07, C09,   *)
(* C17, C18 and C20; `hist` records the calls (hidden by VIEW in model     *)
(* checking, used to generate scenarios that are replayed on the real      *)
(* code with the projection compared after every step).                    *)
(***************************************************************************)
EXTENDS Naturals, Integers, Sequences, FiniteSets, TLC

CONSTANTS
  MaxLf,        \* logical files per DLISFile
  MaxCalls,     \* bound on the history length
  Names,        \* object names
  SetNames,     \* set names (0 = the default, unnamed set)
  Classes,      \* non-origin classes
  OriginRefs,   \* explicit origin references a caller may pass to add_origin (0 = none given)
  ItemRefs,     \* explicit origin references a caller may pass to other add_* calls (0 = none given)
  RefFrom, RefTo,      \* objects of class RefFrom may refer to an existing object of class RefTo ("NONE": no references modelled)
  HeaderShare,         \* TRUE: a logical file may be given a ready-made header that lives in the header set of an earlier one
  OkSet,               \* outcomes of the constructor modelled: BOOLEAN, or {TRUE} to enumerate accepted calls only
  ForeignRefCheck, HeaderSetCheck,  \* check_objects refuses foreign references / crowded header sets (TRUE on this tree)
  Mutations,           \* TRUE: items may be renamed / given another origin reference after creation (item.name = ..., item.origin_reference = ...)
  CopyRule             \* "firstfree": a new or renamed item takes the first copy number no same-named item of its set carries (this tree);
                       \* "count": the number of same-named items (before F25 / F28; equal as long as nothing is renamed)

VARIABLES
  nlf,     \* number of logical files
  reg,     \* registry: sequence of [key |-> <<cls, setname>>, items |-> Seq(item id)]
  view,    \* view[lf]: sequence of registry keys in first-use order
  items,   \* item id -> [lf, cls, sn, name, copy, origin (-1 = none), explicit]
  hc,      \* [flag, stack]
  hdr,     \* hdr[lf]: the header set the FILE-HEADER item of lf lives in (a fresh one unless a ready-made header shares one)
  hist     \* the calls so far, with the model's projection after each

vars == << nlf, reg, view, items, hc, hdr, hist >>

NoOrigin == -1
Key(cls, sn) == << cls, sn >>

RegIdx(key) == LET S == { i \in DOMAIN reg : reg[i].key = key } IN IF S = {} THEN 0 ELSE CHOOSE i \in S : TRUE
SetItems(key) == IF RegIdx(key) = 0 THEN << >> ELSE reg[RegIdx(key)].items

(* get_or_make_set + try_add_set                                            *)
RegWith(key)   == IF RegIdx(key) = 0 THEN Append(reg, [key |-> key, items |-> << >>]) ELSE reg
ViewWith(lf, key) == IF \E i \in DOMAIN view[lf] : view[lf][i] = key THEN view ELSE [view EXCEPT ![lf] = Append(@, key)]

(* origins of a logical file: all items of its ORIGIN sets, in view order   *)
RECURSIVE Concat(_)
Concat(ss) == IF ss = << >> THEN << >> ELSE ss[1] \o Concat(Tail(ss))
OriginKeysIn(vw) == SelectSeq(vw, LAMBDA k : k[1] = "ORIGIN")
OriginsIn(vw) == Concat([i \in DOMAIN OriginKeysIn(vw) |-> SetItems(OriginKeysIn(vw)[i])])
OriginKeys(lf) == OriginKeysIn(view[lf])
OriginsOf(lf) == OriginsIn(view[lf])
DefaultOriginRef(lf) == IF OriginsOf(lf) = << >> THEN NoOrigin ELSE items[OriginsOf(lf)[1]].origin

(* next_available_origin_ref(explicit, origins): `origins` are those of the view AFTER try_add_set(parent), i.e. *)
(* they include the items of a set another logical file created under the same name                               *)
RECURSIVE FirstFree(_, _)
FirstFree(n, used) == IF n \in used THEN FirstFree(n + 1, used) ELSE n
NextOriginRef(orgs, explicit) ==
  LET used == { items[orgs[i]].origin : i \in DOMAIN orgs } IN
  IF explicit # 0 THEN explicit ELSE FirstFree(Len(orgs), used)
OriginClash(orgs, explicit) == explicit # 0 /\ \E i \in DOMAIN orgs : items[orgs[i]].origin = explicit

(* EFLRItem._compute_copy_number (at creation: self = 0) and EFLRItem.__setattr__('name') (self = the renamed item) *)
SameNamed(key, name, self) == { SetItems(key)[i] : i \in { j \in DOMAIN SetItems(key) : SetItems(key)[j] # self /\ items[SetItems(key)[j]].name = name } }
CopyNumberFor(key, name, self) ==
  IF CopyRule = "count" THEN Cardinality(SameNamed(key, name, self))
  ELSE FirstFree(0, { items[i].copy : i \in SameNamed(key, name, self) })
CopyNumber(key, name) == CopyNumberFor(key, name, 0)

Proj == [i \in DOMAIN items |-> << items[i].copy, items[i].origin >>]

Init ==
  /\ nlf = 0 /\ reg = << >> /\ view = << >> /\ items = << >>
  /\ hc = [flag |-> FALSE, stack |-> << >>] /\ hdr = << >>
  /\ hist = << >>

Log(op, newItems, newHc) == hist' = Append(hist, [op |-> op, proj |-> [i \in DOMAIN newItems |-> << newItems[i].copy, newItems[i].origin >>], flag |-> newHc.flag])

AddLogicalFile(share) ==      \* share = 0: header built from the keywords (own set); k: ready-made header in the header set of lf k
  /\ nlf < MaxLf /\ Len(hist) < MaxCalls /\ (share = 0 \/ (HeaderShare /\ share \in 1..nlf))
  /\ nlf' = nlf + 1 /\ view' = Append(view, << >>)
  /\ hdr' = Append(hdr, IF share = 0 THEN nlf + 1 ELSE hdr[share])
  /\ Log([k |-> "add_lf", share |-> share], items, hc)
  /\ UNCHANGED << reg, items, hc >>

(* add_origin(name, set_name, origin_reference): numbering, then - for the first origin of the logical file - *)
(* back-filling of every item without origin in the sets of this logical file                                  *)
AddOrigin(lf, name, sn, explicit) ==
  /\ Len(hist) < MaxCalls /\ lf \in 1..nlf
  /\ LET key  == Key("ORIGIN", sn)
         vw1  == ViewWith(lf, key)[lf]          \* the origins looked at include those of the parent set
         orgs == OriginsIn(vw1)
     IN
     IF OriginClash(orgs, explicit)
     THEN \* RuntimeError before anything is created: only the set has been fetched / made
          /\ reg' = RegWith(key) /\ view' = view
          /\ Log([k |-> "add_origin", lf |-> lf, name |-> name, sn |-> sn, ref |-> explicit, ok |-> FALSE], items, hc)
          /\ UNCHANGED << nlf, items, hc, hdr >>
     ELSE
     LET reg1  == RegWith(key)
         ref   == NextOriginRef(orgs, explicit)
         first == orgs = << >>                  \* exactly one origin in the logical file's origin sets once this one is added
         id    == Len(items) + 1
         it    == [lf |-> lf, cls |-> "ORIGIN", sn |-> sn, name |-> name, copy |-> CopyNumber(key, name), origin |-> ref, explicit |-> explicit # 0, tgt |-> 0]
         mine   == UNION { { SetItems(vw1[k])[j] : j \in DOMAIN SetItems(vw1[k]) } : k \in DOMAIN vw1 }
         filled == IF first THEN [i \in DOMAIN items |-> IF i \in mine /\ items[i].origin = NoOrigin THEN [items[i] EXCEPT !.origin = ref] ELSE items[i]]
                   ELSE items
     IN /\ reg' = [reg1 EXCEPT ![CHOOSE i \in DOMAIN reg1 : reg1[i].key = key].items = Append(@, id)]
        /\ view' = ViewWith(lf, key)
        /\ items' = Append(filled, it)
        /\ Log([k |-> "add_origin", lf |-> lf, name |-> name, sn |-> sn, ref |-> explicit, ok |-> TRUE], Append(filled, it), hc)
        /\ UNCHANGED << nlf, hc, hdr >>

(* add_<class>(name, set_name, origin_reference); ok = FALSE: the constructor rejects a value *)
AddItem(lf, cls, name, sn, explicit, ok, tgt) ==      \* tgt: the object passed as a reference (0 = none)
  /\ Len(hist) < MaxCalls /\ lf \in 1..nlf
  /\ (tgt = 0 \/ (cls = RefFrom /\ tgt \in DOMAIN items /\ items[tgt].cls = RefTo))
  /\ LET key  == Key(cls, sn)
         reg1 == RegWith(key)
         id   == Len(items) + 1
         it   == [lf |-> lf, cls |-> cls, sn |-> sn, name |-> name, copy |-> CopyNumber(key, name),
                  origin |-> IF explicit # 0 THEN explicit ELSE DefaultOriginRef(lf), explicit |-> explicit # 0, tgt |-> tgt]
     IN /\ IF ok
           THEN /\ reg' = [reg1 EXCEPT ![CHOOSE i \in DOMAIN reg1 : reg1[i].key = key].items = Append(@, id)]
                /\ items' = Append(items, it) /\ view' = ViewWith(lf, key)
           ELSE reg' = reg1 /\ items' = items /\ view' = view      \* the set is registered in the logical file only once the item exists
        /\ Log([k |-> "add", lf |-> lf, cls |-> cls, name |-> name, sn |-> sn, ref |-> explicit, ok |-> ok, tgt |-> tgt], items', hc)
  /\ UNCHANGED << nlf, hc, hdr >>

(* item.name = n: the cached OBNAME is dropped; a *new* name brings a copy number free among the items of that name *)
Rename(id, n) ==
  /\ Mutations /\ Len(hist) < MaxCalls /\ id \in DOMAIN items
  /\ LET it == items[id]
         cp == IF n = it.name THEN it.copy
               ELSE IF CopyRule = "count" THEN it.copy      \* (before F25: the copy number was computed at construction only)
               ELSE CopyNumberFor(Key(it.cls, it.sn), n, id)
     IN items' = [items EXCEPT ![id] = [it EXCEPT !.name = n, !.copy = cp]]
  /\ Log([k |-> "rename", id |-> id, name |-> n], items', hc)
  /\ UNCHANGED << nlf, reg, view, hc, hdr >>

(* item.origin_reference = r: from now on the reference is the caller's choice *)
SetOriginRef(id, r) ==
  /\ Mutations /\ Len(hist) < MaxCalls /\ id \in DOMAIN items /\ r # 0
  /\ items[id].cls # "ORIGIN"      \* (re-numbering an ORIGIN object itself leaves the objects that follow it behind: not modelled, see DESIGN 9)
  /\ items' = [items EXCEPT ![id] = [@ EXCEPT !.origin = r, !.explicit = TRUE]]
  /\ Log([k |-> "set_origin", id |-> id, ref |-> r], items', hc)
  /\ UNCHANGED << nlf, reg, view, hc, hdr >>

EnterHC ==
  /\ Len(hist) < MaxCalls /\ Len(hc.stack) < 2
  /\ hc' = [flag |-> TRUE, stack |-> Append(hc.stack, hc.flag)]
  /\ Log([k |-> "hc_enter"], items, hc')
  /\ UNCHANGED << nlf, reg, view, items, hdr >>

LeaveHC(byexc) ==      \* try / finally: the saved value is restored on a normal exit and on an exception alike
  /\ Len(hist) < MaxCalls /\ hc.stack # << >>
  /\ hc' = [flag |-> hc.stack[Len(hc.stack)], stack |-> SubSeq(hc.stack, 1, Len(hc.stack) - 1)]
  /\ Log([k |-> IF byexc THEN "hc_exit_exc" ELSE "hc_exit"], items, hc')
  /\ UNCHANGED << nlf, reg, view, items, hdr >>

Next ==
  \/ \E sh \in 0..MaxLf : AddLogicalFile(sh)
  \/ \E lf \in 1..MaxLf, n \in Names, sn \in SetNames, r \in OriginRefs : AddOrigin(lf, n, sn, r)
  \/ \E lf \in 1..MaxLf, c \in Classes, n \in Names, sn \in SetNames, r \in ItemRefs, ok \in OkSet, t \in 0..MaxCalls : AddItem(lf, c, n, sn, r, ok, t)
  \/ \E id \in 1..MaxCalls, n \in Names : Rename(id, n)
  \/ \E id \in 1..MaxCalls, r \in ItemRefs : SetOriginRef(id, r)
  \/ EnterHC \/ LeaveHC(TRUE) \/ LeaveHC(FALSE)

Spec == Init /\ [][Next]_vars
View == << nlf, reg, view, items, hc, hdr >>

(* ======================= what a write emits ============================== *)
(* per logical file: its ORIGIN sets first, then the other sets, each with ALL items of the (possibly shared) set *)
Emitted(lf) ==
  LET keys == OriginKeys(lf) \o SelectSeq(view[lf], LAMBDA k : k[1] # "ORIGIN") IN
  Concat([i \in DOMAIN keys |-> SetItems(keys[i])])

SharedSets == \E a, b \in 1..nlf : a # b /\ \E i \in DOMAIN view[a] : \E j \in DOMAIN view[b] : view[a][i] = view[b][j]

(* ======================= what check_objects refuses at a write ============ *)
(* (the model's histories are completed to files with an origin, channels and frames per logical file before they   *)
(*  are written, so the completeness checks do not appear here)                                                    *)
SharedWith(lf) == \E b \in 1..nlf : b # lf /\ \E i \in DOMAIN view[lf] : \E j \in DOMAIN view[b] : view[lf][i] = view[b][j]
OwnItems(lf) == UNION { { SetItems(view[lf][k])[j] : j \in DOMAIN SetItems(view[lf][k]) } : k \in DOMAIN view[lf] }
ForeignRef(lf) == \E i \in OwnItems(lf) : items[i].tgt # 0 /\ ~\E k \in DOMAIN view[lf] : view[lf][k] = Key(items[items[i].tgt].cls, items[items[i].tgt].sn)
HeadersIn(h) == { lf \in 1..nlf : hdr[lf] = h }
CrowdedHeader(lf) == Cardinality(HeadersIn(hdr[lf])) # 1
Refused(lf) == SharedWith(lf) \/ (ForeignRefCheck /\ ForeignRef(lf)) \/ (HeaderSetCheck /\ CrowdedHeader(lf))
Writable == \A lf \in 1..nlf : ~Refused(lf)

(* ======================= obligations ===================================== *)
(* C07: in a file that is written, every reference resolves - by the identity it is written as - to exactly one object *)
(* the logical file emits, and that object is the one the caller passed (K03 aside)                                *)
KnownK03(x, y) == x.cls = y.cls /\ x.sn # y.sn
SameIdentity(x, y) == x.cls = y.cls /\ x.name = y.name /\ x.copy = y.copy /\ x.origin = y.origin
RefResolves ==
  Writable => \A lf \in 1..nlf : \A a \in DOMAIN Emitted(lf) :
     LET x == items[Emitted(lf)[a]] IN
       x.tgt = 0 \/ LET cands == { b \in DOMAIN Emitted(lf) : SameIdentity(items[Emitted(lf)[b]], items[x.tgt]) } IN
                      (\E b \in cands : Emitted(lf)[b] = x.tgt)
                      /\ \A b \in cands : Emitted(lf)[b] = x.tgt \/ KnownK03(items[Emitted(lf)[b]], items[x.tgt])

(* C09 / C18: in a file that is written, every logical file opens with a header record holding its own header only *)
HeaderOwn == Writable => \A lf \in 1..nlf : HeadersIn(hdr[lf]) = {lf}

(* C07: identity (class, origin, copy, name) unique among the objects a logical file emits *)
(* Known finding K03 (reproduced by this model, confirmed on the code): the copy number counts same-named objects *)
(* of the parent SET, so two sets of one type (different set names) in one logical file give equal identities.   *)
IdentityUnique ==
  \A lf \in 1..nlf : \A a, b \in DOMAIN Emitted(lf) :
     a # b => LET x == items[Emitted(lf)[a]]  y == items[Emitted(lf)[b]] IN
              KnownK03(x, y) \/ ~(x.cls = y.cls /\ x.name = y.name /\ x.copy = y.copy /\ x.origin = y.origin)

(* C07: once a logical file has an origin, every object it emits carries the origin of one of its ORIGIN objects, *)
(* unless the caller chose the reference explicitly (known finding K01) or sets are shared between logical files  *)
OriginResolves ==
  \A lf \in 1..nlf : OriginsOf(lf) # << >> /\ ~SharedSets =>
     \A a \in DOMAIN Emitted(lf) : LET x == items[Emitted(lf)[a]] IN
        x.explicit \/ x.origin \in { items[OriginsOf(lf)[i]].origin : i \in DOMAIN OriginsOf(lf) }

(* C18: without shared sets a logical file emits exactly its own objects   *)
Isolation ==
  ~SharedSets => \A lf \in 1..nlf : \A a \in DOMAIN Emitted(lf) : items[Emitted(lf)[a]].lf = lf

(* C18/C09: every object is emitted by its own logical file                *)
Completeness ==
  \A i \in DOMAIN items : \E a \in DOMAIN Emitted(items[i].lf) : Emitted(items[i].lf)[a] = i

(* C09: the defining origin comes first among the origins emitted, sets are unique per (class, name) in a view *)
ViewUnique == \A lf \in 1..nlf : \A i, j \in DOMAIN view[lf] : i # j => view[lf][i] # view[lf][j]

(* C20: a rejected call changes no item (action property)                   *)
RejectedIsNoOp == [][ (hist' # hist /\ "ok" \in DOMAIN hist'[Len(hist')].op /\ ~hist'[Len(hist')].op.ok) => items' = items /\ view' = view ]_vars

(* C17: the flag is TRUE exactly inside a context; leaving everything restores FALSE *)
FlagDiscipline == (hc.stack = << >> => ~hc.flag) /\ (hc.stack # << >> => hc.flag)

(* C07: copy numbers of same-named objects of one set are 0, 1, 2, ... in creation order - as long as nothing was renamed; *)
(* with renames they are still pairwise different                                                                        *)
NoRenameYet == \A k \in DOMAIN hist : hist[k].op.k # "rename"
CopyNumbersDense ==
  NoRenameYet =>
  \A r \in DOMAIN reg : \A n \in Names :
     LET same == SelectSeq(reg[r].items, LAMBDA i : items[i].name = n) IN
       \A k \in DOMAIN same : items[same[k]].copy = k - 1
CopyNumbersDistinct ==
  \A r \in DOMAIN reg : \A a, b \in DOMAIN reg[r].items :
     a # b /\ items[reg[r].items[a]].name = items[reg[r].items[b]].name => items[reg[r].items[a]].copy # items[reg[r].items[b]].copy

(* C15: the number of records announced to the progress bar (SizedGenerator) covers the records the generator yields: *)
(* per logical file the header and one record per set of its view (data records are counted one by one on both sides) *)
RECURSIVE SumLen(_)
SumLen(vs) == IF vs = << >> THEN 0 ELSE Len(vs[1]) + 1 + SumLen(Tail(vs))
Announced == SumLen(view)
Yielded   == SumLen(view)
ProgressTotalCovers == Yielded <= Announced

(* scenario generation: print complete histories (used with the Gen configuration) *)
PrintLeaf == Len(hist) = MaxCalls => PrintT(<< "HIST", hist, Writable >>)

=====================================================================================
