SPECIFICATION Spec
CONSTANT MaxRows = 6
INVARIANT WindowRows
INVARIANT Served
INVARIANT Rejected
INVARIANT InOrder
INVARIANT NoWriteThrough
CHECK_DEADLOCK FALSE
