SPECIFICATION Spec
CONSTANT CheckBounds = TRUE
CONSTANT MaxRows = 6
INVARIANT WindowRows
INVARIANT Served
INVARIANT Rejected
INVARIANT InOrder
INVARIANT NoWriteThrough
CHECK_DEADLOCK FALSE
