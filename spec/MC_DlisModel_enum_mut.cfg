SPECIFICATION Spec
CONSTANTS
  MaxLf = 1
  MaxCalls = 5
  Names = {"A", "B"}
  SetNames = {0}
  Classes = {"ZONE"}
  OriginRefs = {0}
  RefFrom = "NONE"
  RefTo = "NONE"
  HeaderShare = FALSE
  OkSet = {TRUE}
  ForeignRefCheck = TRUE
  HeaderSetCheck = TRUE
  Mutations = TRUE
  CopyRule = "firstfree"
  ItemRefs = {0}
INVARIANT PrintLeaf
CHECK_DEADLOCK FALSE
