--------------------------------- MODULE DerivedDefaults ---------------------------------
(***************************************************************************)
(* Implementation-shaped model of the values the library fills in on its   *)
(* own at a write ("documented write-time defaults", C05) and keeps in the *)
(* very attributes the user assigns - so that at the NEXT write it has to  *)
(* tell its own earlier default from the user's choice (C14, C20).         *)
(*                                                                         *)
(* One channel VAL (name cname, data of width wd supplied at each write),  *)
(* one parameter PAR whose values have a per-value shape pshape.  Slots:   *)
(*   L  CHANNEL LONG-NAME      default: the channel's name                 *)
(*   D  CHANNEL DIMENSION      default: the width of the data written      *)
(*   E  CHANNEL ELEMENT-LIMIT  default: the same; a user's limit that      *)
(*                             bounds the width is accepted and the width  *)
(*                             is written (documented, asserted by tests)  *)
(*   P  PARAMETER DIMENSION    default: the shape of the values            *)
(* A slot is [v, rec, mark, given]:                                        *)
(*   v      what the attribute holds now (0 / "" = nothing)                *)
(*   rec    the value the last write put there as a default (0 / "")       *)
(*   mark   TRUE while no assignment has touched the attribute since       *)
(*   given  the user's element limit the library has overwritten           *)
(* `...Mark = TRUE`: the library recognises its own default by the mark;   *)
(* FALSE: by comparing the attribute with rec (a user who assigns the very *)
(* value that had been derived is then taken for the library).             *)
(*                                                                         *)
(* want = what a fresh process writes for the current specification and    *)
(* the data of this write (or that it refuses them); out = what this       *)
(* process does.  A refused write leaves the state it had reached.         *)
(***************************************************************************)
EXTENDS Naturals, Sequences, TLC

CONSTANTS MaxOps,
  LongFollows, LongMark,        \* F36; its completion
  DimFollows, DimMark,          \* F30; its completion
  LimMark, LimKeepsGiven,       \* the user's element limit survives the write that narrowed it
  ParFollows, ParMark           \* F37

VARIABLES cname, ulong, udim, ulim, pshape, updim,      \* the specification
          ls, ds, es, ps,                               \* the attributes as the implementation keeps them
          out, want, hist

spec == << cname, ulong, udim, ulim, pshape, updim >>
impl == << ls, ds, es, ps >>
vars == << cname, ulong, udim, ulim, pshape, updim, ls, ds, es, ps, out, want, hist >>
noHist == << cname, ulong, udim, ulim, pshape, updim, ls, ds, es, ps, out, want, Len(hist) >>

Names  == {"VA", "VB"}
Longs  == {"VA", "LN"}          \* a long name equal to a channel name, and another one
Widths == {1, 2, 3}
Shapes == {1, 2, 3}

Slot(v, rec, mark, given) == [v |-> v, rec |-> rec, mark |-> mark, given |-> given]
Empty(z) == Slot(z, z, FALSE, z)

Init ==
  /\ cname = "VA" /\ ulong = "" /\ udim = 0 /\ ulim = 0 /\ pshape = 1 /\ updim = 0
  /\ ls = Empty("") /\ ds = Empty(0) /\ es = Empty(0) /\ ps = Empty(0)
  /\ out = << >> /\ want = << >> /\ hist = << >>

Can == Len(hist) < MaxOps
Log(op) == hist' = Append(hist, op)

(* ---- the user's assignments: the public setter replaces the value; it knows nothing of rec ---- *)
AssignN(s, x) == [s EXCEPT !.v = x, !.mark = FALSE, !.given = 0]

Rename(n)   == /\ Can /\ cname' = n /\ Log([k |-> "rename", name |-> n])
               /\ UNCHANGED << ulong, udim, ulim, pshape, updim, ls, ds, es, ps, out, want >>
PinLong(x)  == /\ Can /\ ulong' = x /\ ls' = [ls EXCEPT !.v = x, !.mark = FALSE] /\ Log([k |-> "pin_long", v |-> x])
               /\ UNCHANGED << cname, udim, ulim, pshape, updim, ds, es, ps, out, want >>
PinDim(w)   == /\ Can /\ udim' = w /\ ds' = AssignN(ds, w) /\ Log([k |-> "pin_dim", w |-> w])
               /\ UNCHANGED << cname, ulong, ulim, pshape, updim, ls, es, ps, out, want >>
PinLim(w)   == /\ Can /\ ulim' = w /\ es' = AssignN(es, w) /\ Log([k |-> "pin_lim", w |-> w])
               /\ UNCHANGED << cname, ulong, udim, pshape, updim, ls, ds, ps, out, want >>
SetShape(s) == /\ Can /\ pshape' = s /\ Log([k |-> "set_shape", s |-> s])
               /\ UNCHANGED << cname, ulong, udim, ulim, updim, ls, ds, es, ps, out, want >>
PinParDim(s) == /\ Can /\ updim' = s /\ ps' = AssignN(ps, s) /\ Log([k |-> "pin_pdim", s |-> s])
               /\ UNCHANGED << cname, ulong, udim, ulim, pshape, ls, ds, es, out, want >>

(* ---- what the library takes for its own earlier default ---- *)
Own(s, byMark, none) == s.rec # none /\ (IF byMark THEN s.mark ELSE s.v = s.rec)
Given(s, follows, byMark, none) == IF follows /\ Own(s, byMark, none) THEN none ELSE s.v

(* ---- a fresh process ---- *)
WantOf(wd) ==
  IF (udim # 0 /\ udim # wd) \/ (ulim # 0 /\ ulim < wd) \/ (updim # 0 /\ updim # pshape) THEN << "raises" >>
  ELSE << IF ulong # "" THEN ulong ELSE cname, wd, wd, pshape >>

Write(wd) ==
  /\ Can
  /\ LET \* frame set-up: ChannelItem._set_dimension_from_data
         gd     == Given(ds, DimFollows, DimMark, 0)
         ge0    == Given(es, DimFollows, LimMark, 0)
         \* the user's limit, if the library has written a narrower one over it and the user has not assigned since
         ge     == IF LimKeepsGiven /\ ge0 # 0 /\ es.given # 0 /\ es.mark THEN es.given ELSE ge0
         dimBad == gd # 0 /\ gd # wd
         limBad == ~dimBad /\ ge # 0 /\ ge < wd
         ds1    == IF dimBad THEN [ds EXCEPT !.rec = 0]
                   ELSE IF gd = 0 THEN Slot(wd, wd, TRUE, 0) ELSE [ds EXCEPT !.rec = 0]
         es1    == IF dimBad \/ limBad THEN [es EXCEPT !.rec = IF ge0 = 0 THEN wd ELSE 0]
                   ELSE IF ge = 0 THEN Slot(wd, wd, TRUE, 0)
                   ELSE Slot(wd, 0, TRUE, ge)          \* the written limit is the width; the user's own one is kept aside
         early  == dimBad \/ limBad
         \* channel set: ChannelItem._run_checks_and_set_defaults
         gl     == Given(ls, LongFollows, LongMark, "")
         ls1    == IF early THEN ls ELSE IF gl = "" THEN Slot(cname, cname, TRUE, "") ELSE [ls EXCEPT !.rec = ""]
         \* parameter set: DimensionedItem._forget_dimension_from_values, _check_or_set_value_dimensionality
         gp     == Given(ps, ParFollows, ParMark, 0)
         parBad == ~early /\ gp # 0 /\ gp # pshape
         ps1    == IF early THEN ps ELSE IF gp = 0 THEN Slot(pshape, pshape, TRUE, 0) ELSE [ps EXCEPT !.rec = 0]
     IN /\ ds' = ds1 /\ es' = es1 /\ ls' = ls1 /\ ps' = ps1
        /\ out' = IF early \/ parBad THEN << "raises" >> ELSE << ls1.v, ds1.v, es1.v, ps1.v >>
        /\ want' = WantOf(wd)
        /\ Log([k |-> "write", wd |-> wd, proj |-> [long |-> ls1.v, dim |-> ds1.v, lim |-> es1.v, pdim |-> ps1.v],
                raises |-> (early \/ parBad), valid |-> (WantOf(wd) # << "raises" >>)])
  /\ UNCHANGED spec

Next == (\E n \in Names : Rename(n)) \/ (\E x \in Longs : PinLong(x)) \/ (\E w \in Widths : PinDim(w)) \/ (\E w \in Widths : PinLim(w))
        \/ (\E s \in Shapes : SetShape(s)) \/ (\E s \in Shapes : PinParDim(s)) \/ (\E w \in Widths : Write(w))
Spec == Init /\ [][Next]_vars

(* C14 / C20: this process does what a fresh process does for the current specification and data *)
AfterWrite == hist # << >> /\ hist[Len(hist)].k = "write"
HistoryIndependent == AfterWrite => out = want
(* C05: what the user assigned is what is written (a refusal apart) *)
UserValueKept == (AfterWrite /\ out # << "raises" >>) =>
                   /\ (ulong # "" => out[1] = ulong) /\ (udim # 0 => out[2] = udim) /\ (updim # 0 => out[4] = updim)
(* C08: DIMENSION is the width of the data, ELEMENT-LIMIT bounds it *)
Truthful == (AfterWrite /\ out # << "raises" >>) => (out[2] = hist[Len(hist)].wd /\ out[3] >= out[2])

(* scenario generation: histories with an earlier write that end with a write *)
PrintLeaf == (Len(hist) = MaxOps /\ hist[Len(hist)].k = "write" /\ hist[Len(hist)].valid /\ \E i \in 1..(Len(hist) - 1) : hist[i].k = "write")
               => PrintT(<< "HIST", hist >>)
=====================================================================================
