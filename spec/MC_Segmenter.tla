------------------------------- MODULE MC_Segmenter -------------------------------
EXTENDS Segmenter

(* Window(cap): every residue of L modulo cap, every remainder 1..11, the exact  *)
(* fits k*cap, both parities, up to four segments.                               *)
Window(c) == 0 .. (3 * c + 13)

(* boundary lengths used when several records are queued                         *)
Edge(c) == {0, 1, 2, 11, 12, 13, c - 1, c, c + 1, c + 11, c + 12, c + 13, 2 * c, 2 * c + 5, 3 * c + 12}

LenQuick(c, n)    == IF n = 1 THEN Window(c) ELSE Edge(c)
LenThorough(c, n) == IF n = 1 THEN 0 .. (5 * c + 13) ELSE (IF n = 2 THEN Edge(c) ELSE {0, 5, c + 1, c + 11, 2 * c + 12})

BufQuick(v)    == {v, v + 2, 2 * v + 6, 100000}
BufThorough(v) == {v, v + 1, v + 2, v + 16, 2 * v, 2 * v + 6, 3 * v - 2, 100000}

VRLQuick    == {20, 22, 24, 26, 28, 30, 32, 34, 36, 40}
VRLThorough == {v \in 20..48 : v % 2 = 0} \cup {64, 72}
===================================================================================
