SPECIFICATION Spec
CONSTANTS
  VRLs <- VRLQuick
  MaxRecs = 2
  LenSet <- LenQuick
  BufSizes <- BufQuick
INVARIANT Writable
INVARIANT FinalWellFormed
INVARIANT DiskOnBoundary
INVARIANT ChunkInvisible
INVARIANT TotalIsSize
INVARIANT BufferBounded
PROPERTY DiskIsPrefix
CHECK_DEADLOCK FALSE
