--------------------------------- MODULE TraceDlis ---------------------------------
(***************************************************************************)
(* Trace validation: recorded executions of the real dliswriter code are   *)
(* replayed against the normative specification.  One behaviour of this    *)
(* specification = one recorded trace (tid); one TLC step = one event, or, *)
(* inside a write event, one visible record of the written file followed   *)
(* by one step per clause family.                                          *)
(*                                                                         *)
(* Actions are total: a failed clause never disables a step, it adds the   *)
(* clause name (prefixed by its property id) to `verdict`.  The final step *)
(* prints one VERDICT line per trace.                                      *)
(***************************************************************************)
EXTENDS DlisCanon, Json, IOUtils, TLC, TLCExt

ASSUME TLCSet(1, JsonDeserialize(IOEnv.TRACE_FILE).traces)
Traces == TLCGet(1)

VARIABLES
  tid,      \* which trace of the batch
  ei,       \* index of the next event
  ph,       \* "ev" | "vr" (reading a file) | "L1".."L4" (logical clauses of a write) | "done"
  rd,       \* reader state (RP66Frame)
  nrec,     \* logical records closed so far in the current file
  bnd,      \* positions (file lengths) that are visible-record boundaries of the current file
  dec,      \* decoded logical records of the current file (high-level writes)
  cfil, clf, cobj, cnf,   \* Canon (see DlisCanon)
  rej,      \* fids for which an add_* call was rejected
  hcm,      \* model of the compatibility flag: [flag, stack]
  seen,     \* successful writes so far: [key, ei, opts]
  projs,    \* per process: projections (copy number, origin, dataset name) of the accepted add_* calls, in order
  failedw,  \* fids for which a write raised
  verdict,  \* set of << clause, event index >>
  cnt       \* counters (coverage evidence)

vars == << tid, ei, ph, rd, nrec, bnd, dec, cfil, clf, cobj, cnf, rej, hcm, seen, projs, failedw, verdict, cnt >>
canonVars == << cfil, clf, cobj, cnf, rej >>

T == Traces[tid]
E == T.events[ei]
NEvents == Len(T.events)

Tag(cs, i) == { << c, i >> : c \in cs }

CntZero == [events |-> 0, files |-> 0, vrs |-> 0, segs |-> 0, pads |-> 0, multi |-> 0, recs |-> 0, raised |-> 0,
            flushes |-> 0, eflrs |-> 0, objs |-> 0, attrs |-> 0, fdata |-> 0, nofmt |-> 0, refs |-> 0,
            cmp |-> 0, enc |-> 0, rejected |-> 0, idx |-> 0, hcev |-> 0, frames |-> 0]

Init ==
  /\ tid \in 1..Len(Traces)
  /\ ei = 1 /\ ph = "ev" /\ rd = ReaderInit /\ nrec = 0 /\ bnd = {} /\ dec = << >>
  /\ cfil = << >> /\ clf = << >> /\ cobj = << >> /\ cnf = << >> /\ rej = {}
  /\ hcm = [flag |-> FALSE, stack |-> << >>]
  /\ seen = << >> /\ projs = << << >>, << >>, << >>, << >> >> /\ failedw = {} /\ verdict = {} /\ cnt = CntZero

IsWriteOp == E.op \in {"lowwrite", "write"}
HighLevel == E.op = "write"

(* C17: the observed flag after the event must be the modelled one          *)
FlagClause(flag) == IF E.hc = flag THEN {} ELSE {"C17.FlagDiscipline"}

(* C17: what the specification of a file must not contain inside the high-compatibility mode *)
HcNameOk(n) == n # << >> /\ \A i \in DOMAIN n : n[i] \in (65..90) \cup (48..57) \cup {45, 95}
CanonBreach(fid) ==
  LET f == CHOOSE x \in { cfil[i] : i \in DOMAIN cfil } : x.fid = fid IN
     ~HcNameOk(f.setid)
  \/ (\E i \in DOMAIN clf : (clf[i].fid = fid /\ ~HcNameOk(clf[i].fh_id)))
  \/ \E i \in DOMAIN cobj : (cobj[i].fid = fid /\ (~HcNameOk(cobj[i].name)
                                 \/ (\E a \in DOMAIN cobj[i].attrs : ~cobj[i].attrs[a].enum_ok)))
AbsI(x) == IF x < 0 THEN 0 - x ELSE x
ClearlyNonUniform(vals) ==      \* integer index values whose consecutive differences are more than 10 % apart
  LET v == [k \in DOMAIN vals |-> LimToInt(vals[k])]
      d == [k \in 1..(Len(v) - 1) |-> v[k + 1] - v[k]]
  IN Len(v) >= 3 /\ \E a, b \in DOMAIN d : d[a] # d[b] /\ 10 * AbsI(d[a] - d[b]) > AbsI(d[b])
FrameIndexed(oid) == \E i \in DOMAIN cobj : cobj[i].oid = oid /\ \E a \in DOMAIN cobj[i].attrs :
                        cobj[i].attrs[a].label = lINDEXTYPE /\ cobj[i].attrs[a].has_val
DataBreach(e) ==
     (\E i \in DOMAIN e.frames : \E c \in DOMAIN e.frames[i].chans : e.frames[i].chans[c].srcsigned)
  \/ (\E i \in DOMAIN e.frames : e.frames[i].has_rows /\ e.frames[i].index.ok /\ FrameIndexed(e.frames[i].oid)
                                   /\ ClearlyNonUniform(e.frames[i].index.vals))

(* ----------------------- API events that build Canon --------------------- *)
NewFile ==
  /\ ph = "ev" /\ ei <= NEvents /\ E.op = "new_file"
  /\ cfil' = IF E.outcome = "ok" THEN Append(cfil, [fid |-> E.fid, vrl |-> E.vrl, seq |-> E.seq, setid |-> E.setid,
                                                     allhc |-> hcm.flag, proc |-> E.proc]) ELSE cfil
  /\ verdict' = verdict \cup Tag(FlagClause(hcm.flag), ei)
  /\ cnt' = [cnt EXCEPT !.events = @ + 1]
  /\ ei' = ei + 1
  /\ UNCHANGED << tid, ph, rd, nrec, bnd, dec, clf, cobj, cnf, rej, hcm, seen, projs, failedw >>

(* the storage unit label is a public, mutable object: a later assignment changes the current specification *)
SetSul ==
  /\ ph = "ev" /\ ei <= NEvents /\ E.op = "set_sul"
  /\ cfil' = IF E.outcome # "ok" THEN cfil
             ELSE [i \in DOMAIN cfil |-> IF cfil[i].fid # E.fid THEN cfil[i]
                     ELSE IF E.field = "sequence_number" THEN [cfil[i] EXCEPT !.seq = E.num]
                     ELSE IF E.field = "max_record_length" THEN [cfil[i] EXCEPT !.vrl = E.num]
                     ELSE [cfil[i] EXCEPT !.setid = E.text]]
  /\ verdict' = verdict \cup Tag(FlagClause(hcm.flag), ei)
  /\ cnt' = [cnt EXCEPT !.events = @ + 1]
  /\ ei' = ei + 1
  /\ UNCHANGED << tid, ph, rd, nrec, bnd, dec, clf, cobj, cnf, rej, hcm, seen, projs, failedw >>

(* so is the file header of a logical file: lf.file_header.header_id / .sequence_number = ... *)
SetHeader ==
  /\ ph = "ev" /\ ei <= NEvents /\ E.op = "set_header"
  /\ clf' = IF E.outcome # "ok" THEN clf
            ELSE [i \in DOMAIN clf |-> IF clf[i].lf # E.lf THEN clf[i]
                    ELSE IF E.field = "header_id" THEN [clf[i] EXCEPT !.fh_id = E.text]
                    ELSE [clf[i] EXCEPT !.fh_seq_dec = E.text]]
  /\ verdict' = verdict \cup Tag(FlagClause(hcm.flag), ei)
  /\ cnt' = [cnt EXCEPT !.events = @ + 1]
  /\ ei' = ei + 1
  /\ UNCHANGED << tid, ph, rd, nrec, bnd, dec, cfil, cobj, cnf, rej, hcm, seen, projs, failedw >>

NoteHc(f, fid) == [i \in DOMAIN f |-> IF f[i].fid = fid THEN [f[i] EXCEPT !.allhc = @ /\ hcm.flag] ELSE f[i]]

AddLf ==
  /\ ph = "ev" /\ ei <= NEvents /\ E.op = "add_lf"
  /\ clf' = IF E.outcome = "ok" THEN Append(clf, [lf |-> E.lf, fid |-> E.fid, fh_id |-> E.fh_id, fh_seq_dec |-> E.fh_seq_dec]) ELSE clf
  /\ cfil' = NoteHc(cfil, E.fid)
  /\ verdict' = verdict \cup Tag(FlagClause(hcm.flag), ei)
  /\ cnt' = [cnt EXCEPT !.events = @ + 1]
  /\ ei' = ei + 1
  /\ UNCHANGED << tid, ph, rd, nrec, bnd, dec, cobj, cnf, rej, hcm, seen, projs, failedw >>

AddObject ==
  /\ ph = "ev" /\ ei <= NEvents /\ E.op = "add"
  /\ IF E.outcome = "ok"
     THEN /\ cobj' = Append(cobj, [oid |-> E.oid, fid |-> E.fid, lf |-> E.lf, cls |-> E.cls, has_setname |-> E.has_setname,
                                    setname |-> E.setname, name |-> E.name, origin |-> E.origin, attrs |-> E.attrs])
          /\ rej' = rej
     ELSE /\ cobj' = cobj /\ rej' = rej \cup {E.fid}
  /\ cfil' = NoteHc(cfil, E.fid)
  /\ verdict' = verdict \cup Tag(FlagClause(hcm.flag)
        \* C17: inside the mode every breach raises; outside it the same input is accepted (with a warning)
        \cup (IF hcm.flag /\ E.outcome = "ok" /\ (~HcNameOk(E.name) \/ \E a \in DOMAIN E.attrs : ~E.attrs[a].enum_ok)
              THEN {"C17.BreachAccepted"} ELSE {})
        \cup (IF ~hcm.flag /\ E.outcome = "raised" /\ E.soft_only THEN {"C17.AcceptedOutside"} ELSE {}), ei)
  /\ cnt' = [cnt EXCEPT !.events = @ + 1, !.rejected = @ + (IF E.outcome = "ok" THEN 0 ELSE 1)]
  /\ ei' = ei + 1
  /\ projs' = IF E.outcome = "ok" /\ E.proc \in DOMAIN projs
              THEN [projs EXCEPT ![E.proc] = Append(@, [cls |-> E.cls, name |-> E.name, proj |-> E.proj])] ELSE projs
  /\ UNCHANGED << tid, ph, rd, nrec, bnd, dec, clf, cnf, hcm, seen, failedw >>

SetAttrIn(c, e) ==
  IF e.part = "origin_reference" THEN [c EXCEPT !.origin = e.origin]
  ELSE IF e.part = "name" THEN [c EXCEPT !.name = e.name]
  ELSE IF e.part \in {"dataset_name", "cast_dtype"} THEN c
  ELSE LET S == { i \in DOMAIN c.attrs : c.attrs[i].label = e.label } IN
    IF S = {}
    THEN [c EXCEPT !.attrs = Append(@, IF e.part = "value"
             THEN [label |-> e.label, has_val |-> TRUE, val |-> e.val, has_units |-> FALSE, units |-> << >>, judge |-> e.judge, enum_ok |-> e.enum_ok]
             ELSE [label |-> e.label, has_val |-> FALSE, val |-> << >>, has_units |-> TRUE, units |-> e.units, judge |-> TRUE, enum_ok |-> TRUE])]
    ELSE LET i == CHOOSE x \in S : TRUE IN
      IF e.part = "value" THEN [c EXCEPT !.attrs[i].has_val = TRUE, !.attrs[i].val = e.val, !.attrs[i].judge = e.judge, !.attrs[i].enum_ok = e.enum_ok]
      ELSE [c EXCEPT !.attrs[i].has_units = TRUE, !.attrs[i].units = e.units]

SetAttr ==
  /\ ph = "ev" /\ ei <= NEvents /\ E.op = "set"
  /\ cobj' = IF E.outcome = "ok" THEN [i \in DOMAIN cobj |-> IF cobj[i].oid = E.oid THEN SetAttrIn(cobj[i], E) ELSE cobj[i]] ELSE cobj
  /\ verdict' = verdict \cup Tag(FlagClause(hcm.flag)
        \cup (IF hcm.flag /\ E.outcome = "ok" /\ (~E.enum_ok \/ (E.part = "name" /\ ~HcNameOk(E.name))) THEN {"C17.BreachAccepted"} ELSE {})
        \cup (IF ~hcm.flag /\ E.outcome = "raised" /\ E.soft_only THEN {"C17.AcceptedOutside"} ELSE {}), ei)
  /\ cnt' = [cnt EXCEPT !.events = @ + 1]
  /\ ei' = ei + 1
  /\ UNCHANGED << tid, ph, rd, nrec, bnd, dec, cfil, clf, cnf, rej, hcm, seen, projs, failedw >>

NofmtData ==
  /\ ph = "ev" /\ ei <= NEvents /\ E.op = "nofmt_data"
  /\ cnf' = IF E.outcome = "ok" THEN Append(cnf, [lf |-> E.lf, oid |-> E.oid, payload |-> E.payload, proc |-> E.proc]) ELSE cnf
  /\ verdict' = verdict \cup Tag(FlagClause(hcm.flag), ei)
  /\ cnt' = [cnt EXCEPT !.events = @ + 1]
  /\ ei' = ei + 1
  /\ UNCHANGED << tid, ph, rd, nrec, bnd, dec, cfil, clf, cobj, rej, hcm, seen, projs, failedw >>

(* the payload of an existing no-format record is replaced (record.data = ...): Canon follows *)
NofmtReplace ==
  /\ ph = "ev" /\ ei <= NEvents /\ E.op = "nofmt_replace"
  \* (E.idx counts the records created by the process of this event)
  /\ LET mine == SelectSeq([i \in DOMAIN cnf |-> i], LAMBDA i : cnf[i].proc = E.proc) IN
       cnf' = IF E.outcome = "ok" /\ E.idx \in DOMAIN mine THEN [cnf EXCEPT ![mine[E.idx]].payload = E.payload] ELSE cnf
  /\ cnt' = [cnt EXCEPT !.events = @ + 1]
  /\ ei' = ei + 1
  /\ UNCHANGED << tid, ph, rd, nrec, bnd, dec, cfil, clf, cobj, rej, hcm, seen, projs, failedw, verdict >>

(* C17: the context manager: enter saves and sets, leaving restores (also by exception) *)
HcEvent ==
  /\ ph = "ev" /\ ei <= NEvents /\ E.op \in {"hc_enter", "hc_exit", "hc_exit_exc"}
  /\ LET m == IF E.op = "hc_enter" THEN [flag |-> TRUE, stack |-> Append(hcm.stack, hcm.flag)]
              ELSE IF hcm.stack = << >> THEN hcm
              ELSE [flag |-> hcm.stack[Len(hcm.stack)], stack |-> SubSeq(hcm.stack, 1, Len(hcm.stack) - 1)]
     IN /\ hcm' = m
        /\ verdict' = verdict \cup Tag(IF E.hc = m.flag THEN {} ELSE {"C17.FlagDiscipline"}, ei)
  /\ cnt' = [cnt EXCEPT !.events = @ + 1, !.hcev = @ + 1]
  /\ ei' = ei + 1
  /\ UNCHANGED << tid, ph, rd, nrec, bnd, dec, cfil, clf, cobj, cnf, rej, seen, projs, failedw >>

(* ----------------------- C06: primitive encodings ------------------------ *)
EncodeClauses(e) ==
  LET c == e.code   v == e.val IN
  CASE v.k = "int" /\ c \in IntCodes \cup {STATUS} ->
         IF IntRepresentable(c, v.v)
         THEN (IF e.outcome # "ok" THEN {"C06.MustAccept"} ELSE IF e.bytes = EncInt(c, v.v) THEN {} ELSE {"C06.EncodeBytes"})
         ELSE (IF e.outcome = "ok" THEN {"C06.MustReject"} ELSE {})
    [] v.k = "bits" /\ c \in {FSINGL, FDOUBL} ->
         IF e.outcome # "ok" THEN {"C06.MustAccept"} ELSE IF e.bytes = v.b THEN {} ELSE {"C06.EncodeBytes"}
    [] v.k = "str" /\ c \in {IDENT, UNITS} ->
         IF IdentRepresentable(v.s)
         THEN (IF e.outcome # "ok" THEN {"C06.MustAccept"} ELSE IF e.bytes = EncIdent(v.s) THEN {} ELSE {"C06.EncodeBytes"})
         ELSE (IF e.outcome = "ok" THEN {"C06.MustReject"} ELSE {})
    [] v.k = "str" /\ c = ASCII ->
         IF AsciiRepresentable(v.s)
         THEN (IF e.outcome # "ok" THEN {"C06.MustAccept"} ELSE IF e.bytes = EncAscii(v.s) THEN {} ELSE {"C06.EncodeBytes"})
         ELSE (IF e.outcome = "ok" THEN {"C06.MustReject"} ELSE {})
    [] v.k = "dt" /\ c = DTIME ->
         IF DtimeRepresentable(v)
         THEN (IF e.outcome # "ok" THEN {"C06.MustAccept"} ELSE IF e.bytes \in EncDtimeSet(v) THEN {} ELSE {"C06.EncodeBytes"})
         ELSE (IF e.outcome = "ok" THEN {"C06.MustReject"} ELSE {})
    [] v.k = "obname" /\ c = OBNAME ->
         IF ObnameRepresentable(v)
         THEN (IF e.outcome # "ok" THEN {"C06.MustAccept"} ELSE IF e.bytes = EncObname(v) THEN {} ELSE {"C06.EncodeBytes"})
         ELSE (IF e.outcome = "ok" THEN {"C06.MustReject"} ELSE {})
    [] v.k = "obname" /\ c = OBJREF ->
         IF ObjrefRepresentable(v)
         THEN (IF e.outcome # "ok" THEN {"C06.MustAccept"} ELSE IF e.bytes = EncObjref(v) THEN {} ELSE {"C06.EncodeBytes"})
         ELSE (IF e.outcome = "ok" THEN {"C06.MustReject"} ELSE {})
    [] OTHER -> {}     \* argument types the property does not constrain

Encode ==
  /\ ph = "ev" /\ ei <= NEvents /\ E.op = "encode"
  /\ verdict' = verdict \cup Tag(EncodeClauses(E), ei)
  /\ cnt' = [cnt EXCEPT !.events = @ + 1, !.enc = @ + 1]
  /\ ei' = ei + 1
  /\ UNCHANGED << tid, ph, rd, nrec, bnd, dec, cfil, clf, cobj, cnf, rej, hcm, seen, projs, failedw >>

(* ----------------------- C04 / C05: one attribute written on its own ----- *)
(* (the combinations of spec/AttrEncoder.tla replayed on real Attribute objects) *)
AttrClauses(e) ==
  LET want == IF e.rejected \/ e.given = "none" THEN -1
              ELSE CASE e.given = "scalar" -> 1 [] e.given = "empty" -> 0 [] e.given = "one" -> 1 [] e.given = "two" -> 2
                     [] e.given = "many" -> 130 [] e.given = "nested" -> 4
      B == e.bytes
  IN IF e.outcome = "raised" THEN {}          \* refused when written: fail-closed
     ELSE IF B = << >> THEN {"C04.Truncated"}
     ELSE IF B[1] = 0 THEN (IF want <= 0 /\ Len(B) = 1 THEN {} ELSE {"C05.AttrValue"})
     ELSE LET c == AttrComponent(B, 1, [DefaultAttr EXCEPT !.label = << 76 >>], TRUE) IN
          c.bad
     \cup (IF c.ok /\ c.next # Len(B) + 1 THEN {"C04.Leftover"} ELSE {})
     \cup (IF ~c.ok THEN {}
           ELSE IF want = -1 THEN {"C05.UnassignedAbsent"}
           ELSE IF want = 0 THEN (IF c.a.count = 0 /\ ~c.a.hasValue THEN {} ELSE {"C05.AttrCount"})
           ELSE (IF c.a.hasValue /\ c.a.count = want THEN {} ELSE {"C05.AttrCount"})
           \cup (IF e.units = (c.a.units # << >>) THEN {} ELSE {"C05.AttrUnits"}))

AttrEvent ==
  /\ ph = "ev" /\ ei <= NEvents /\ E.op = "attr"
  /\ verdict' = verdict \cup Tag(AttrClauses(E), ei)
  /\ cnt' = [cnt EXCEPT !.events = @ + 1, !.attrs = @ + 1]
  /\ ei' = ei + 1
  /\ UNCHANGED << tid, ph, rd, nrec, bnd, dec, cfil, clf, cobj, cnf, rej, hcm, seen, projs, failedw >>

(* ----------------------- writes ------------------------------------------ *)
LowValid(e) == e.vrl % 2 = 0 /\ e.vrl >= 20 /\ e.vrl <= 16384 /\ (e.out_chunk = 0 \/ e.out_chunk >= e.vrl)
               /\ \A i \in DOMAIN e.recs : e.recs[i].type \in 0..255

HasFile(fid) == \E i \in DOMAIN cfil : cfil[i].fid = fid
FileOf(fid) == LET S == { i \in DOMAIN cfil : cfil[i].fid = fid } IN cfil[CHOOSE i \in S : TRUE]
FileCfg(e) == IF e.op = "lowwrite" THEN [seq |-> e.seq, vrl |-> e.vrl, setid |-> e.setid]
              ELSE LET f == FileOf(e.fid) IN [seq |-> f.seq, vrl |-> f.vrl, setid |-> f.setid]

(* the current specification of file fid, free of the numbering the harness happens to use *)
ObjPos(objs, oid) == LET S == { i \in DOMAIN objs : objs[i].oid = oid } IN IF S = {} THEN 0 ELSE CHOOSE i \in S : TRUE
LfPos(lfs, lf) == LET S == { i \in DOMAIN lfs : lfs[i].lf = lf } IN IF S = {} THEN 0 ELSE CHOOSE i \in S : TRUE
NormVal(objs, v) == IF v.k = "ref" THEN [k |-> "ref", pos |-> ObjPos(objs, v.oid)] ELSE v
WriteKey(e) ==
  LET f == FileOf(e.fid)  lfs == LfsOf(clf, e.fid)  objs == SelectSeq(cobj, LAMBDA c : c.fid = e.fid) IN
  [sul |-> [seq |-> f.seq, vrl |-> f.vrl, setid |-> f.setid],
   lfs |-> [i \in DOMAIN lfs |-> [id |-> lfs[i].fh_id, seq |-> lfs[i].fh_seq_dec]],
   objs |-> [i \in DOMAIN objs |->
              [lf |-> LfPos(lfs, objs[i].lf), cls |-> objs[i].cls, hs |-> objs[i].has_setname, sn |-> objs[i].setname,
               name |-> objs[i].name, origin |-> objs[i].origin,
               attrs |-> [a \in DOMAIN objs[i].attrs |->
                           [label |-> objs[i].attrs[a].label, hv |-> objs[i].attrs[a].has_val,
                            val |-> [x \in DOMAIN objs[i].attrs[a].val |-> NormVal(objs, objs[i].attrs[a].val[x])],
                            hu |-> objs[i].attrs[a].has_units, units |-> objs[i].attrs[a].units]]]],
   nf |-> LET mine == SelectSeq(cnf, LAMBDA x : LfPos(lfs, x.lf) # 0) IN
            [i \in DOMAIN mine |-> [lf |-> LfPos(lfs, mine[i].lf), pos |-> ObjPos(objs, mine[i].oid), payload |-> mine[i].payload]],
   frames |-> [i \in DOMAIN e.frames |-> [pos |-> ObjPos(objs, e.frames[i].oid), hr |-> e.frames[i].has_rows, rows |-> e.frames[i].rows]]]
\* another write event of the same specification and data, by the same route, chunk sizes and compatibility mode, both claimed valid
SameWrite(sn, e) ==
  LET o == T.events[sn.ei] IN
    sn.key = WriteKey(e) /\ o.claim.valid /\ e.claim.valid /\ o.opts.route = e.opts.route /\ o.opts.in_chunk = e.opts.in_chunk
    /\ o.opts.out_chunk = e.opts.out_chunk /\ o.hc = e.hc

BeginWrite ==
  /\ ph = "ev" /\ ei <= NEvents /\ IsWriteOp
  /\ cnt' = [cnt EXCEPT !.events = @ + 1, !.raised = @ + (IF E.outcome = "raised" THEN 1 ELSE 0),
                        !.files = @ + (IF E.outcome = "ok" THEN 1 ELSE 0)]
  /\ IF E.outcome = "raised"
     THEN /\ verdict' = verdict \cup Tag(
                 (IF E.op = "lowwrite" THEN (IF LowValid(E) THEN {"C15.Writable"} ELSE {})
                  ELSE (IF E.claim.valid THEN {"C15.Writable"} ELSE {})
                  \cup FlagClause(hcm.flag)
                  \* the same valid specification and data were written before (same route, chunk sizes and mode): raising now is history
                  \cup (IF E.op = "write" /\ E.claim.valid /\ HasFile(E.fid) /\ \E i \in DOMAIN seen : seen[i].ok /\ SameWrite(seen[i], E)
                        THEN {"C14.OutcomeIndependent"} ELSE {})), ei)
          /\ ei' = ei + 1 /\ UNCHANGED << ph, rd, nrec, bnd, dec >>
          /\ seen' = IF HighLevel /\ HasFile(E.fid) THEN Append(seen, [key |-> WriteKey(E), ei |-> ei, ok |-> FALSE]) ELSE seen
     ELSE /\ seen' = seen
          /\ verdict' = verdict \cup Tag(SulClauses(E.file.bytes, FileCfg(E))
                 \cup (IF HighLevel THEN FlagClause(hcm.flag) ELSE {})
                 \* (unless the unrepresentable input was already refused by the add_* call that carried it)
                 \cup (IF HighLevel /\ E.claim.mustraise # "" /\ E.fid \notin rej THEN {"C12.MustRaise"} ELSE {})
                 \cup (IF HighLevel /\ hcm.flag /\ FileOf(E.fid).allhc
                          /\ (E.claim.hc_breach # "" \/ CanonBreach(E.fid) \/ DataBreach(E)) THEN {"C17.BreachWritten"} ELSE {}), ei)
          /\ ph' = "vr" /\ rd' = ReaderInit /\ nrec' = 0 /\ bnd' = {80} /\ dec' = << >> /\ UNCHANGED ei
  /\ failedw' = IF HighLevel /\ E.outcome = "raised" THEN failedw \cup {E.fid} ELSE failedw
  /\ UNCHANGED << tid, cfil, clf, cobj, cnf, rej, hcm, projs >>

(* (a record with an empty body denotes "no record": the writer emits nothing for an empty set)  *)
NonEmpty(recs) == SelectSeq(recs, LAMBDA x : Len(x.body) > 0)
TapRecs(e) == NonEmpty(e.file.tap)
Given(e) == IF e.op = "lowwrite" THEN NonEmpty(e.recs) ELSE TapRecs(e)

(* one visible record; closed logical records are compared at once (C02) and decoded (C04) *)
ReadVR ==
  /\ ph = "vr" /\ ~ReaderDone(E.file.bytes, rd)
  /\ LET B    == E.file.bytes
         st   == VRStep(B, SulDeclaredMax(B), rd)
         tap  == TapRecs(E)
         giv  == Given(E)
         chk(k) ==      \* k-th record closed in this step
           LET i == nrec + k   rec == st.out[k] IN
             (IF i <= Len(tap) /\ rec.body # tap[i].body THEN {"C02.RecordOrderBody"} ELSE {})
        \cup (IF i <= Len(tap) /\ rec.eflr # tap[i].eflr THEN {"C02.RecordEflrFlag"} ELSE {})
        \cup (IF i <= Len(tap) /\ rec.type # tap[i].type THEN {"C02.RecordType"} ELSE {})
        \cup (IF i <= Len(giv) /\ (rec.body # giv[i].body \/ rec.eflr # giv[i].eflr \/ rec.type # giv[i].type)
              THEN {"C02.RecordOrderBody"} ELSE {})
         nd == IF HighLevel THEN [k \in 1..Len(st.out) |-> DecodeRecord(st.out[k])] ELSE << >>
     IN /\ rd' = [st EXCEPT !.bad = {}, !.out = << >>]
        /\ nrec' = nrec + Len(st.out)
        /\ bnd' = IF st.stop THEN bnd ELSE bnd \cup {st.pos - 1}
        /\ dec' = dec \o nd
        /\ verdict' = verdict \cup Tag(st.bad \cup UNION { chk(k) : k \in 1..Len(st.out) }
                                       \cup UNION { nd[k].bad : k \in DOMAIN nd }, ei)
  /\ UNCHANGED << tid, ei, ph, cfil, clf, cobj, cnf, rej, hcm, seen, projs, failedw, cnt >>

(* end of file: counts, totals, flush observations (C10)                    *)
EndFile ==
  /\ ph = "vr" /\ ReaderDone(E.file.bytes, rd)
  /\ LET B   == E.file.bytes
         F   == E.file
         fl  == F.flushes
         bad == EofClauses(rd)
           \cup (IF nrec = Len(TapRecs(E)) /\ nrec = Len(Given(E)) THEN {} ELSE {"C02.RecordCount"})
           \cup (IF F.total = Len(B) THEN {} ELSE {"C10.SizeReported"})
           \cup (IF Len(fl) > 0 /\ fl[Len(fl)].total # Len(B) THEN {"C10.SizeReported"} ELSE {})
           \cup (IF E.watch
                 THEN (IF \A k \in DOMAIN fl : Len(fl[k].disk) <= Len(B) /\ fl[k].disk = SubSeq(B, 1, Len(fl[k].disk))
                       THEN {} ELSE {"C10.FlushPrefix"})
                 \cup (IF \A k \in DOMAIN fl : Len(fl[k].disk) \in bnd THEN {} ELSE {"C10.FlushBoundary"})
                 \cup (IF \A k \in DOMAIN fl : Len(fl[k].disk) = fl[k].total THEN {} ELSE {"C10.SizeReported"})
                 \cup (IF Len(fl) > 0 /\ fl[Len(fl)].disk # B THEN {"C10.FlushPrefix"} ELSE {})
                 \cup (IF E.prior >= 0 /\ Len(fl) > 0 /\ Len(fl[1].disk) # 80 THEN {"C10.Replaced"} ELSE {})
                 ELSE {})
     IN /\ verdict' = verdict \cup Tag(bad, ei)
        /\ cnt' = [cnt EXCEPT !.vrs = @ + rd.nvr, !.segs = @ + rd.nseg, !.pads = @ + rd.npad,
                              !.multi = @ + rd.nmulti, !.recs = @ + nrec, !.flushes = @ + Len(fl)]
  /\ IF HighLevel THEN ph' = "L1" /\ UNCHANGED ei ELSE ph' = "ev" /\ ei' = ei + 1
  /\ UNCHANGED << tid, rd, nrec, bnd, dec, cfil, clf, cobj, cnf, rej, hcm, seen, projs, failedw >>

(* ---- logical clauses of a high-level write, one step per family --------- *)
MyLfs  == LfsOf(clf, E.fid)
MyObjs == SelectSeq(cobj, LAMBDA c : c.fid = E.fid)
Rgs    == LfRanges(dec)

CheckStructure ==        \* C07 identity / references, C09 order (file alone)
  /\ ph = "L1"
  /\ verdict' = verdict \cup Tag(IdentityClauses(dec) \cup OrderClauses(dec), ei)
  /\ cnt' = [cnt EXCEPT !.eflrs = @ + Len(SelectSeq(dec, LAMBDA r : r.k = "E")),
                        !.fdata = @ + Len(SelectSeq(dec, LAMBDA r : r.k = "I" /\ r.type = 0)),
                        !.nofmt = @ + Len(SelectSeq(dec, LAMBDA r : r.k = "I" /\ r.type = 1))]
  /\ ph' = "L2"
  /\ UNCHANGED << tid, ei, rd, nrec, bnd, dec, cfil, clf, cobj, cnf, rej, hcm, seen, projs, failedw >>

CheckObjects ==          \* C05 metadata, C09 headers, C18 / C20 inventories
  /\ ph = "L2"
  /\ LET rgs == Rgs  lfs == MyLfs  objs == MyObjs  anyRej == E.fid \in rej IN
     verdict' = verdict \cup Tag(
          HeaderClauses(dec, rgs, lfs, cobj)
     \cup UNION { ObjectClauses(dec, rgs, lfs, cobj, objs[i], anyRej) : i \in DOMAIN objs }
     \cup InventoryClauses(dec, rgs, lfs, cobj, anyRej), ei)
  /\ cnt' = [cnt EXCEPT !.objs = @ + Len(MyObjs)]
  /\ ph' = "L3"
  /\ UNCHANGED << tid, ei, rd, nrec, bnd, dec, cfil, clf, cobj, cnf, rej, hcm, seen, projs, failedw >>

CheckData ==             \* C03 / C08 / C11 / C13 frames, C16 no-format
  /\ ph = "L3"
  /\ LET rgs == Rgs  lfs == MyLfs
         multi == Len(lfs) > 1 \/ Len(E.frames) > 1 IN
     verdict' = verdict \cup Tag(
          UNION { FrameClauses(dec, rgs, lfs, cobj, E.frames[i], multi) : i \in DOMAIN E.frames }
     \cup NofmtClauses(dec, rgs, lfs, cobj, cnf), ei)
  /\ cnt' = [cnt EXCEPT !.frames = @ + Len(E.frames),
                        !.idx = @ + Len(SelectSeq(E.frames, LAMBDA f : f.has_rows /\ f.index.ok))]
  /\ ph' = "L4"
  /\ UNCHANGED << tid, ei, rd, nrec, bnd, dec, cfil, clf, cobj, cnf, rej, hcm, seen, projs, failedw >>

CheckHistory ==          \* C10 / C11 / C14 same specification => same bytes; C19 caller data
  /\ ph = "L4"
  /\ LET key == WriteKey(E)
         same == { i \in DOMAIN seen : seen[i].key = key /\ seen[i].ok }
         failedBefore == \E i \in DOMAIN seen : ~seen[i].ok /\ E.claim.valid /\ SameWrite(seen[i], E)
         diff(i) == LET o == T.events[seen[i].ei] IN
                      IF o.file.bytes = E.file.bytes THEN {}
                      ELSE IF o.opts.route # E.opts.route THEN {"C11.SourceEquivalent"}
                      ELSE IF o.opts.in_chunk # E.opts.in_chunk \/ o.opts.out_chunk # E.opts.out_chunk THEN {"C10.ChunkInvariant"}
                      ELSE IF E.fid \in failedw \/ o.fid \in failedw THEN {"C20.FailedWriteRecoverable"}
                      ELSE {"C14.HistoryIndependent"}
         caller == IF E.caller.before = E.caller.after /\ E.caller.keys_same THEN {} ELSE {"C19.CallerDataUnchanged"}
     IN /\ verdict' = verdict \cup Tag(UNION { diff(i) : i \in same } \cup caller
                                       \cup (IF failedBefore THEN {"C14.OutcomeIndependent"} ELSE {}), ei)
        /\ seen' = Append(seen, [key |-> key, ei |-> ei, ok |-> TRUE])
        /\ cnt' = [cnt EXCEPT !.cmp = @ + Cardinality(same)]
  /\ ph' = "ev" /\ ei' = ei + 1 /\ dec' = << >>
  /\ UNCHANGED << tid, rd, nrec, bnd, cfil, clf, cobj, cnf, rej, hcm, projs, failedw >>

(* a write that raised: the caller's data must still be intact (C19)        *)
\* (handled in BeginWrite for the flag; caller data below)

(* events this specification has no clause for are skipped (counted)        *)
KnownOps == {"lowwrite", "write", "new_file", "add_lf", "add", "set", "nofmt_data", "hc_enter", "hc_exit", "hc_exit_exc", "encode", "attr", "set_sul", "nofmt_replace", "set_header"}
SkipEvent ==
  /\ ph = "ev" /\ ei <= NEvents /\ E.op \notin KnownOps
  /\ ei' = ei + 1 /\ cnt' = [cnt EXCEPT !.events = @ + 1]
  /\ UNCHANGED << tid, ph, rd, nrec, bnd, dec, cfil, clf, cobj, cnf, rej, hcm, seen, projs, failedw, verdict >>

Finish ==
  /\ ph = "ev" /\ ei = NEvents + 1
  /\ LET pc == IF T.flags.cmpproj /\ projs[1] # projs[2] THEN {<< "C20.LaterIdentityUnaffected", NEvents >>} ELSE {}
     IN PrintT(<< "VERDICT", T.id, verdict \cup pc, cnt >>)
  /\ ph' = "done"
  /\ UNCHANGED << tid, ei, rd, nrec, bnd, dec, cfil, clf, cobj, cnf, rej, hcm, seen, projs, failedw, verdict, cnt >>

Next == NewFile \/ SetSul \/ SetHeader \/ AddLf \/ AddObject \/ SetAttr \/ NofmtData \/ NofmtReplace \/ HcEvent \/ Encode \/ AttrEvent
        \/ BeginWrite \/ ReadVR \/ EndFile \/ CheckStructure \/ CheckObjects \/ CheckData \/ CheckHistory
        \/ SkipEvent \/ Finish

TraceSpec == Init /\ [][Next]_vars

=====================================================================================
