--------------------------------- MODULE TraceDlis ---------------------------------
(***************************************************************************)
(* Trace validation: recorded executions of the real dliswriter code are   *)
(* replayed against the normative specification.  One behaviour of this    *)
(* specification = one recorded trace (tid); one TLC step = one event, or, *)
(* inside a write event, one visible record of the written file.           *)
(*                                                                         *)
(* Actions are total: a failed clause never disables a step, it adds the   *)
(* clause name (prefixed by its property id) to `verdict`.  The final step *)
(* prints one VERDICT line per trace.                                      *)
(***************************************************************************)
EXTENDS RP66Frame, Json, IOUtils, TLC, TLCExt

ASSUME TLCSet(1, JsonDeserialize(IOEnv.TRACE_FILE).traces)
Traces == TLCGet(1)

VARIABLES
  tid,      \* which trace of the batch
  ei,       \* index of the next event
  ph,       \* "ev" (between events) | "vr" (reading the file of a write) | "end" | "fin" | "done"
  rd,       \* reader state (RP66Frame)
  nrec,     \* logical records closed so far in the current file
  bnd,      \* positions (file lengths) that are visible-record boundaries of the current file
  verdict,  \* set of << clause, event index >>
  cnt       \* counters (coverage evidence)

vars == << tid, ei, ph, rd, nrec, bnd, verdict, cnt >>

T == Traces[tid]
E == T.events[ei]
NEvents == Len(T.events)

Tag(cs, i) == { << c, i >> : c \in cs }

CntZero == [events |-> 0, files |-> 0, vrs |-> 0, segs |-> 0, pads |-> 0, multi |-> 0, recs |-> 0, raised |-> 0,
            flushes |-> 0]

Init ==
  /\ tid \in 1..Len(Traces)
  /\ ei = 1 /\ ph = "ev" /\ rd = ReaderInit /\ nrec = 0 /\ bnd = {} /\ verdict = {} /\ cnt = CntZero

(* ----------------------- low-level write (DLISWriter driven directly) ---- *)
LowValid(e) == e.vrl % 2 = 0 /\ e.vrl >= 20 /\ e.vrl <= 16384 /\ (e.out_chunk = 0 \/ e.out_chunk >= e.vrl)
               /\ \A i \in DOMAIN e.recs : e.recs[i].type \in 0..255

FileCfg(e) == [seq |-> e.seq, vrl |-> e.vrl, setid |-> e.setid]

BeginLowWrite ==
  /\ ph = "ev" /\ ei <= NEvents /\ E.op = "lowwrite"
  /\ cnt' = [cnt EXCEPT !.events = @ + 1, !.raised = @ + (IF E.outcome = "raised" THEN 1 ELSE 0),
                        !.files = @ + (IF E.outcome = "ok" THEN 1 ELSE 0)]
  /\ IF E.outcome = "raised"
     THEN /\ verdict' = verdict \cup Tag(IF LowValid(E) THEN {"C15.Writable"} ELSE {}, ei)
          /\ ei' = ei + 1 /\ UNCHANGED << ph, rd, nrec, bnd >>
     ELSE /\ verdict' = verdict \cup Tag(SulClauses(E.file.bytes, FileCfg(E)), ei)
          /\ ph' = "vr" /\ rd' = ReaderInit /\ nrec' = 0 /\ bnd' = {80} /\ UNCHANGED ei
  /\ UNCHANGED tid

(* the records the reader must find: what was handed to the segmenter       *)
(* (a record with an empty body denotes "no record": the writer emits nothing for an empty set)  *)
NonEmpty(recs) == SelectSeq(recs, LAMBDA x : Len(x.body) > 0)
TapRecs(e) == NonEmpty(e.file.tap)
Given(e) == IF e.op = "lowwrite" THEN NonEmpty(e.recs) ELSE TapRecs(e)

(* one visible record; closed logical records are compared at once (C02)    *)
ReadVR ==
  /\ ph = "vr" /\ ~ReaderDone(E.file.bytes, rd)
  /\ LET B    == E.file.bytes
         st   == VRStep(B, SulDeclaredMax(B), rd)
         tap  == TapRecs(E)
         giv  == Given(E)
         chk(k) ==      \* k-th record closed in this step
           LET i == nrec + k   rec == st.out[k] IN
             (IF i <= Len(tap) /\ rec.body # tap[i].body THEN {"C02.RecordOrderBody"} ELSE {})
        \cup (IF i <= Len(tap) /\ rec.eflr # tap[i].eflr THEN {"C02.RecordEflrFlag"} ELSE {})
        \cup (IF i <= Len(tap) /\ rec.type # tap[i].type THEN {"C02.RecordType"} ELSE {})
        \cup (IF i <= Len(giv) /\ (rec.body # giv[i].body \/ rec.eflr # giv[i].eflr \/ rec.type # giv[i].type)
              THEN {"C02.RecordOrderBody"} ELSE {})
     IN /\ rd' = [st EXCEPT !.bad = {}]
        /\ nrec' = nrec + Len(st.out)
        /\ bnd' = IF st.stop THEN bnd ELSE bnd \cup {st.pos - 1}
        /\ verdict' = verdict \cup Tag(st.bad \cup UNION { chk(k) : k \in 1..Len(st.out) }, ei)
  /\ UNCHANGED << tid, ei, ph, cnt >>

(* end of file: counts, totals, flush observations (C10)                    *)
EndFile ==
  /\ ph = "vr" /\ ReaderDone(E.file.bytes, rd)
  /\ LET B   == E.file.bytes
         F   == E.file
         fl  == F.flushes
         bad == EofClauses(rd)
           \cup (IF nrec = Len(TapRecs(E)) /\ nrec = Len(Given(E)) THEN {} ELSE {"C02.RecordCount"})
           \cup (IF F.total = Len(B) THEN {} ELSE {"C10.SizeReported"})
           \cup (IF Len(fl) > 0 /\ fl[Len(fl)].total # Len(B) THEN {"C10.SizeReported"} ELSE {})
           \cup (IF E.watch
                 THEN (IF \A k \in DOMAIN fl : Len(fl[k].disk) <= Len(B) /\ fl[k].disk = SubSeq(B, 1, Len(fl[k].disk))
                       THEN {} ELSE {"C10.FlushPrefix"})
                 \cup (IF \A k \in DOMAIN fl : Len(fl[k].disk) \in bnd THEN {} ELSE {"C10.FlushBoundary"})
                 \cup (IF \A k \in DOMAIN fl : Len(fl[k].disk) = fl[k].total THEN {} ELSE {"C10.SizeReported"})
                 \cup (IF Len(fl) > 0 /\ fl[Len(fl)].disk # B THEN {"C10.FlushPrefix"} ELSE {})
                 \cup (IF E.prior >= 0 /\ Len(fl) > 0 /\ Len(fl[1].disk) # 80 THEN {"C10.Replaced"} ELSE {})
                 ELSE {})
     IN /\ verdict' = verdict \cup Tag(bad, ei)
        /\ cnt' = [cnt EXCEPT !.vrs = @ + rd.nvr, !.segs = @ + rd.nseg, !.pads = @ + rd.npad,
                              !.multi = @ + rd.nmulti, !.recs = @ + nrec, !.flushes = @ + Len(fl)]
  /\ ei' = ei + 1 /\ ph' = "ev"
  /\ UNCHANGED << tid, rd, nrec, bnd >>

(* events this specification has no clause for are skipped (counted)        *)
KnownOps == {"lowwrite"}
SkipEvent ==
  /\ ph = "ev" /\ ei <= NEvents /\ E.op \notin KnownOps
  /\ ei' = ei + 1 /\ cnt' = [cnt EXCEPT !.events = @ + 1]
  /\ UNCHANGED << tid, ph, rd, nrec, bnd, verdict >>

Finish ==
  /\ ph = "ev" /\ ei = NEvents + 1
  /\ PrintT(<< "VERDICT", T.id, verdict, cnt >>)
  /\ ph' = "done"
  /\ UNCHANGED << tid, ei, rd, nrec, bnd, verdict, cnt >>

Next == BeginLowWrite \/ ReadVR \/ EndFile \/ SkipEvent \/ Finish

TraceSpec == Init /\ [][Next]_vars

=====================================================================================
