SPECIFICATION Spec
CONSTANTS
  Typed = TRUE
  BypassFloat = TRUE
  BypassDtime = TRUE
  BypassRef = TRUE
  Invalidate = TRUE
  MarkDerived = TRUE
  KeepData = FALSE
  MaxOps = 4
INVARIANT HistoryIndependent
CHECK_DEADLOCK FALSE
