--------------------------------- MODULE DlisCanon ---------------------------------
(***************************************************************************)
(* The *current specification* (Canon) a history of API calls denotes, and *)
(* what a file written from it must decode to (Render, stated as clauses   *)
(* over Canon and the decoded file).  Normative level.                     *)
(*                                                                         *)
(* Canon lists (all in creation order):                                    *)
(*   cfil  [fid, vrl, seq, setid]                                          *)
(*   clf   [lf, fid, fh_id, fh_seq_dec]                                    *)
(*   cobj  accepted add events [oid, fid, lf, cls, has_setname, setname,   *)
(*         name, origin, attrs, hcAtAdd], attrs updated by later sets      *)
(*   cnf   [lf, oid, payload]                                              *)
(***************************************************************************)
EXTENDS DlisDecode

AllowedAddition ==
  { << << 79, 82, 73, 71, 73, 78 >>, << 67, 82, 69, 65, 84, 73, 79, 78, 45, 84, 73, 77, 69 >> >>,
    << << 79, 82, 73, 71, 73, 78 >>, << 70, 73, 69, 76, 68, 45, 78, 65, 77, 69 >> >>,
    << << 79, 82, 73, 71, 73, 78 >>, << 70, 73, 76, 69, 45, 73, 68 >> >>,
    << << 79, 82, 73, 71, 73, 78 >>, << 70, 73, 76, 69, 45, 83, 69, 84, 45, 78, 85, 77, 66, 69, 82 >> >>,
    << << 67, 72, 65, 78, 78, 69, 76 >>, << 68, 73, 77, 69, 78, 83, 73, 79, 78 >> >>,
    << << 67, 72, 65, 78, 78, 69, 76 >>, << 69, 76, 69, 77, 69, 78, 84, 45, 76, 73, 77, 73, 84 >> >>,
    << << 67, 72, 65, 78, 78, 69, 76 >>, << 76, 79, 78, 71, 45, 78, 65, 77, 69 >> >>,
    << << 67, 72, 65, 78, 78, 69, 76 >>, << 82, 69, 80, 82, 69, 83, 69, 78, 84, 65, 84, 73, 79, 78, 45, 67, 79, 68, 69 >> >>,
    << << 70, 82, 65, 77, 69 >>, << 68, 73, 82, 69, 67, 84, 73, 79, 78 >> >>,
    << << 70, 82, 65, 77, 69 >>, << 73, 78, 68, 69, 88, 45, 77, 65, 88 >> >>,
    << << 70, 82, 65, 77, 69 >>, << 73, 78, 68, 69, 88, 45, 77, 73, 78 >> >>,
    << << 70, 82, 65, 77, 69 >>, << 83, 80, 65, 67, 73, 78, 71 >> >>,
    << << 80, 65, 82, 65, 77, 69, 84, 69, 82 >>, << 68, 73, 77, 69, 78, 83, 73, 79, 78 >> >>,
    << << 67, 79, 77, 80, 85, 84, 65, 84, 73, 79, 78 >>, << 68, 73, 77, 69, 78, 83, 73, 79, 78 >> >>,
    << << 67, 65, 76, 73, 66, 82, 65, 84, 73, 79, 78, 45, 77, 69, 65, 83, 85, 82, 69, 77, 69, 78, 84 >>, << 68, 73, 77, 69, 78, 83, 73, 79, 78 >> >> }

sINCREASING == << 73, 78, 67, 82, 69, 65, 83, 73, 78, 71 >>
sDECREASING == << 68, 69, 67, 82, 69, 65, 83, 73, 78, 71 >>

Sel(seq, P(_)) == SelectSeq(seq, P)
IdxWhere(seq, P(_)) == SelectSeq([i \in DOMAIN seq |-> i], LAMBDA i : P(seq[i]))

LfsOf(clf, fid)  == SelectSeq(clf, LAMBDA x : x.fid = fid)
ObjsOfLf(cobj, lf) == SelectSeq(cobj, LAMBDA x : x.lf = lf)
SameSet(a, b) == a.cls = b.cls /\ a.has_setname = b.has_setname /\ a.setname = b.setname

(* position of a canon object inside its (logical file, set): 1-based       *)
PosInSet(cobj, c) ==
  Len(SelectSeq(cobj, LAMBDA x : x.lf = c.lf /\ SameSet(x, c) /\ x.oid < c.oid)) + 1

(* index of the decoded record holding the set of canon object c in the    *)
(* logical file range rg (0 = none)                                        *)
SetRecord(dec, rg, c) ==
  LET S == { i \in rg.from..rg.to : dec[i].k = "E" /\ dec[i].st = c.cls
                                    /\ dec[i].hasName = c.has_setname /\ dec[i].sn = c.setname }
  IN IF S = {} THEN 0 ELSE CHOOSE i \in S : \A j \in S : i <= j

(* where canon object c is in the decoded file: [ok, ri, oi]                *)
Locate(dec, rgs, lfs, cobj, c) ==
  LET ks == { k \in DOMAIN lfs : lfs[k].lf = c.lf } IN
  IF ks = {} THEN [ok |-> FALSE, ri |-> 0, oi |-> 0]
  ELSE LET k == CHOOSE x \in ks : TRUE IN
    IF k > Len(rgs) THEN [ok |-> FALSE, ri |-> 0, oi |-> 0]
    ELSE LET ri == SetRecord(dec, rgs[k], c)  oi == PosInSet(cobj, c) IN
      IF ri = 0 \/ oi > Len(dec[ri].objs) \/ dec[ri].objs[oi].name # c.name
      THEN [ok |-> FALSE, ri |-> ri, oi |-> oi]
      ELSE [ok |-> TRUE, ri |-> ri, oi |-> oi]

CanonByOid(cobj, oid) ==
  LET S == { i \in DOMAIN cobj : cobj[i].oid = oid } IN IF S = {} THEN 0 ELSE CHOOSE i \in S : TRUE

(* ---------------- value equality: assigned vs decoded -------------------- *)
ValEq(e, d, dec, rgs, lfs, cobj) ==
  CASE e.k = "num" ->
         (d.k = "int" /\ e.isint /\ d.v = e.iv)
      \/ (d.k = "bits" /\ d.code = FDOUBL /\ d.b = e.f64)
      \/ (d.k = "bits" /\ d.code = FSINGL /\ e.f32ok /\ d.b = e.f32)
    [] e.k = "str" -> d.k = "str" /\ d.s = e.s
    [] e.k = "dt"  -> d.k = "dt" /\ d.tz = 2 /\ d.y = e.y - 1900 /\ d.mo = e.mo /\ d.d = e.d /\ d.h = e.h
                      /\ d.mi = e.mi /\ d.s = e.s /\ d.ms \in {MsFloor(e.us), MsCeil(e.us)}
    [] e.k = "ref" ->
         LET ci == CanonByOid(cobj, e.oid) IN
         d.k = "ref" /\ ci # 0 /\
         LET loc == Locate(dec, rgs, lfs, cobj, cobj[ci]) IN
           loc.ok /\ LET o == dec[loc.ri].objs[loc.oi] IN
                       d.origin = o.origin /\ d.copy = o.copy /\ d.name = o.name
                       /\ (d.typed => d.type = dec[loc.ri].st)
    [] OTHER -> TRUE

(* ---------------- C07: the origin every object carries -------------------- *)
\* the defining origin of a logical file is the first ORIGIN object added to it; DefOrigin is the origin field it is written with
\* (-1: there is none, or it cannot be located -- other clauses speak then)
DefOrigin(dec, rgs, lfs, cobj, lf) ==
  LET orgs == SelectSeq(cobj, LAMBDA c : c.lf = lf /\ c.cls = sORIGIN) IN
  IF Len(orgs) = 0 THEN -1
  ELSE LET loc == Locate(dec, rgs, lfs, cobj, orgs[1]) IN
       IF loc.ok THEN dec[loc.ri].objs[loc.oi].origin ELSE -1

\* "the defining origin unless the user chose another": c.origin is the user's choice (-1: none made).  An ORIGIN object
\* without a choice carries a number the writer picks; any is right.
OriginChosen(dec, rgs, lfs, cobj, c, o) ==
  IF c.origin >= 1 THEN o.origin = c.origin
  ELSE IF c.cls = sORIGIN THEN TRUE
  ELSE LET d == DefOrigin(dec, rgs, lfs, cobj, c.lf) IN d = -1 \/ c.origin = 0 \/ o.origin = d

(* ---------------- C05 / C18 / C20: objects and attributes ---------------- *)
AssignedLabels(c) == { c.attrs[i].label : i \in { x \in DOMAIN c.attrs : c.attrs[x].has_val \/ c.attrs[x].has_units } }

ObjectClauses(dec, rgs, lfs, cobj, c, anyRejected) ==
  LET loc == Locate(dec, rgs, lfs, cobj, c) IN
  IF ~loc.ok
  THEN (IF \E i \in DOMAIN dec : dec[i].k = "E" /\ dec[i].st = c.cls /\ \E j \in DOMAIN dec[i].objs : dec[i].objs[j].name = c.name
        THEN (IF anyRejected THEN {"C20.RejectedCallNoOp"} ELSE {"C18.ObjectInOwnFile"})
        ELSE {"C05.ObjectPresent"})
  ELSE
  LET r == dec[loc.ri]
      o == r.objs[loc.oi]
      one(a) ==
        LET da == AttrOf(r, o, a.label) IN
          (IF a.has_val /\ a.judge
           THEN (IF Len(a.val) = 0 THEN (IF da.absent \/ Len(da.vals) = 0 THEN {} ELSE {"C05.AttrCount"})
                 ELSE IF da.absent THEN Flag("C05.AttrValue", << c.name, a.label, "absent" >>)
                 ELSE (IF Len(da.vals) # Len(a.val) THEN Flag("C05.AttrCount", << c.name, a.label, Len(a.val), Len(da.vals) >>)
                       ELSE IF \A i \in DOMAIN a.val : ValEq(a.val[i], da.vals[i], dec, rgs, lfs, cobj) THEN {}
                            ELSE IF \E i \in DOMAIN a.val : a.val[i].k = "ref" /\ ~ValEq(a.val[i], da.vals[i], dec, rgs, lfs, cobj)
                                 THEN {"C07.RefIsTarget"} ELSE Flag("C05.AttrValue", << c.name, a.label, a.val, da >>)))
           ELSE {})
     \cup (IF a.has_units /\ a.has_val /\ Len(a.val) > 0 /\ a.judge /\ da.units # a.units THEN Flag("C05.AttrUnits", << c.name, a.label, a.units, da.units >>) ELSE {})
      extra == { i \in DOMAIN o.attrs : i <= Len(r.labels) /\ ~o.attrs[i].absent
                                        /\ r.labels[i] \notin AssignedLabels(c)
                                        /\ << r.st, r.labels[i] >> \notin AllowedAddition }
  IN UNION { one(c.attrs[i]) : i \in DOMAIN c.attrs }
     \cup (IF extra = {} THEN {} ELSE Flag("C05.UnassignedAbsent", << c.name, { r.labels[i] : i \in extra } >>))
     \cup (IF OriginChosen(dec, rgs, lfs, cobj, c, o) THEN {} ELSE Flag("C07.OriginChosen", << c.name, c.origin, o.origin >>))

(* every decoded set of logical file k holds exactly the objects Canon puts there *)
InventoryClauses(dec, rgs, lfs, cobj, anyRejected) ==
  UNION { LET rg == rgs[k]
              mine == ObjsOfLf(cobj, lfs[k].lf)
          IN UNION { LET r == dec[i]
                         n == Len(SelectSeq(mine, LAMBDA x : x.cls = r.st /\ x.has_setname = r.hasName /\ x.setname = r.sn))
                     IN IF r.st = sFILEHEADER \/ Len(r.objs) = n THEN {}
                        ELSE IF Len(r.objs) > n /\ \E x \in DOMAIN cobj : cobj[x].lf # lfs[k].lf /\ cobj[x].cls = r.st
                                                     /\ \E j \in DOMAIN r.objs : r.objs[j].name = cobj[x].name
                             THEN {"C18.ObjectNowhereElse"}
                        ELSE IF anyRejected THEN {"C20.RejectedCallNoOp"} ELSE {"C04.ObjectPerDefinedObject"}
                     : i \in { x \in rg.from..rg.to : dec[x].k = "E" } }
        : k \in { x \in DOMAIN rgs : x <= Len(lfs) } }

(* ---------------- C09 / C18: headers ------------------------------------- *)
HeaderClauses(dec, rgs, lfs, cobj) ==
     (IF Len(rgs) = Len(lfs) THEN {} ELSE {"C18.LogicalFileOrder"})
  \* the first object of the ORIGIN set that follows the header is the defining origin: the first origin added to the logical file
  \cup UNION { LET rg == rgs[k]
                   orgs == SelectSeq(cobj, LAMBDA c : c.lf = lfs[k].lf /\ c.cls = sORIGIN)
               IN IF rg.from + 1 <= rg.to /\ dec[rg.from + 1].k = "E" /\ dec[rg.from + 1].st = sORIGIN
                     /\ Len(dec[rg.from + 1].objs) >= 1 /\ Len(orgs) >= 1 /\ dec[rg.from + 1].objs[1].name # orgs[1].name
                  THEN {"C09.DefiningOriginFirst"} ELSE {}
             : k \in { x \in DOMAIN rgs : x <= Len(lfs) } }
  \* the FILE-HEADER object carries the defining origin's reference
  \cup UNION { LET hdr == dec[rgs[k].from]  d == DefOrigin(dec, rgs, lfs, cobj, lfs[k].lf) IN
               IF Len(hdr.objs) = 1 /\ d # -1 /\ hdr.objs[1].origin # d THEN Flag("C07.OriginChosen", << "FILE-HEADER", hdr.objs[1].origin, d >>) ELSE {}
             : k \in { x \in DOMAIN rgs : x <= Len(lfs) } }
  \* a header record that also holds the header of another logical file of the history
  \cup UNION { LET hdr == dec[rgs[k].from] IN
               IF Len(hdr.objs) > 1 /\ \E n \in DOMAIN hdr.objs, j \in DOMAIN lfs :
                                         j # k /\ lfs[j].fh_id # lfs[k].fh_id /\ OneStr(AttrOf(hdr, hdr.objs[n], lID)) = LJust(lfs[j].fh_id, 65)
               THEN {"C18.OwnHeader"} ELSE {}
             : k \in { x \in DOMAIN rgs : x <= Len(lfs) } }
  \cup UNION { LET hdr == dec[rgs[k].from] IN
               IF Len(hdr.objs) # 1 THEN {}
               ELSE LET o == hdr.objs[1]
                        sq == OneStr(AttrOf(hdr, o, lSEQNUM))
                        id == OneStr(AttrOf(hdr, o, lID))
                        dg == SelectSeq(sq, LAMBDA c : c # 32)      \* "the user's number": decimal digits, right-justified
                    IN (IF sq = RJust(lfs[k].fh_seq_dec, 10) /\ Len(dg) >= 1 /\ (\A q \in DOMAIN dg : dg[q] \in 48..57) THEN {} ELSE {"C09.HeaderSeqNo"})
                  \cup (IF id = LJust(lfs[k].fh_id, 65) THEN {}
                        ELSE IF \E j \in DOMAIN lfs : j # k /\ id = LJust(lfs[j].fh_id, 65) THEN {"C18.OwnHeader"} ELSE {"C09.HeaderId"})
             : k \in { x \in DOMAIN rgs : x <= Len(lfs) } }

(* ---------------- C16: no-format payloads -------------------------------- *)
NofmtClauses(dec, rgs, lfs, cobj, cnf) ==
  UNION { LET rg   == rgs[k]
              got  == SelectSeq([i \in 1..(rg.to - rg.from + 1) |-> dec[rg.from + i - 1]], LAMBDA r : r.k = "I" /\ r.type = 1)
              want == SelectSeq(cnf, LAMBDA x : x.lf = lfs[k].lf)
              m    == Min2(Len(got), Len(want))
              refOk(i) == LET ci == CanonByOid(cobj, want[i].oid) IN
                            ci # 0 /\ LET loc == Locate(dec, rgs, lfs, cobj, cobj[ci]) IN
                              loc.ok /\ LET o == dec[loc.ri].objs[loc.oi] IN
                                 got[i].origin = o.origin /\ got[i].copy = o.copy /\ got[i].name = o.name
          IN (IF Len(got) = Len(want) THEN {} ELSE {"C16.NofmtCount"})
        \cup (IF \A i \in 1..m : got[i].data = want[i].payload THEN {} ELSE {"C16.NofmtPayload"})
        \cup (IF \A i \in 1..m : refOk(i) THEN {} ELSE {"C16.NofmtRef"})
        : k \in { x \in DOMAIN rgs : x <= Len(lfs) } }

(* ---------------- C03 / C08 / C11 / C13: frames and their data ----------- *)
Abs(x) == IF x < 0 THEN 0 - x ELSE x
RECURSIVE Prod(_)
Prod(s) == IF s = << >> THEN 1 ELSE s[1] * Prod(Tail(s))

IntsOf(a) == IF a.absent THEN << >> ELSE [i \in DOMAIN a.vals |-> IF a.vals[i].k = "int" /\ LimIsSmall(a.vals[i].v) THEN LimToInt(a.vals[i].v) ELSE -1]

(* integer value of a decoded number, when it is one (|v| < 2^24): [ok, v]  *)
F64Int(b) ==
  LET neg == b[1] >= 128
      ex  == (b[1] % 128) * 16 + b[2] \div 16
      top == (b[2] % 16) * 65536 + b[3] * 256 + b[4]           \* top 20 mantissa bits
      low0 == b[5] = 0 /\ b[6] = 0 /\ b[7] = 0 /\ b[8] = 0
      e   == ex - 1023
  IN IF ex = 0 /\ top = 0 /\ low0 THEN [ok |-> TRUE, v |-> 0]
     ELSE IF ~low0 \/ e < 0 \/ e > 20 THEN [ok |-> FALSE, v |-> 0]
     ELSE LET m == 1048576 + top          \* 1.mantissa scaled by 2^20
              sh == 20 - e
              p  == 2 ^ sh
          IN IF m % p # 0 THEN [ok |-> FALSE, v |-> 0]
             ELSE [ok |-> TRUE, v |-> IF neg THEN 0 - (m \div p) ELSE m \div p]
(* twice the value of a decoded double, when that is an integer (multiples of 0.5 below 2^19): [ok, v] *)
F64Half(b) ==
  LET neg == b[1] >= 128
      ex  == (b[1] % 128) * 16 + b[2] \div 16
      top == (b[2] % 16) * 65536 + b[3] * 256 + b[4]
      low0 == b[5] = 0 /\ b[6] = 0 /\ b[7] = 0 /\ b[8] = 0
      e   == ex - 1023
  IN IF ex = 0 /\ top = 0 /\ low0 THEN [ok |-> TRUE, v |-> 0]
     ELSE IF ~low0 \/ e < -1 \/ e > 18 THEN [ok |-> FALSE, v |-> 0]
     ELSE LET m == 1048576 + top
              p == 2 ^ (19 - e)
          IN IF m % p # 0 THEN [ok |-> FALSE, v |-> 0]
             ELSE [ok |-> TRUE, v |-> IF neg THEN 0 - (m \div p) ELSE m \div p]
F32Int(b) ==
  LET neg == b[1] >= 128
      ex  == (b[1] % 128) * 2 + b[2] \div 128
      man == (b[2] % 128) * 65536 + b[3] * 256 + b[4]          \* 23 mantissa bits
      e   == ex - 127
  IN IF ex = 0 /\ man = 0 THEN [ok |-> TRUE, v |-> 0]
     ELSE IF e < 0 \/ e > 23 THEN [ok |-> FALSE, v |-> 0]
     ELSE LET m == 8388608 + man   sh == 23 - e   p == 2 ^ sh
          IN IF m % p # 0 THEN [ok |-> FALSE, v |-> 0]
             ELSE [ok |-> TRUE, v |-> IF neg THEN 0 - (m \div p) ELSE m \div p]
NumInt(d) ==
  CASE d.k = "int" -> IF LimIsSmall(d.v) THEN [ok |-> TRUE, v |-> LimToInt(d.v)] ELSE [ok |-> FALSE, v |-> 0]
    [] d.k = "bits" /\ d.code = FDOUBL -> F64Int(d.b)
    [] d.k = "bits" /\ d.code = FSINGL -> F32Int(d.b)
    [] OTHER -> [ok |-> FALSE, v |-> 0]
OneNum(a) == IF ~a.absent /\ Len(a.vals) = 1 THEN NumInt(a.vals[1]) ELSE [ok |-> FALSE, v |-> 0]
(* twice the decoded number, when that is an integer *)
OneHalf(a) == IF a.absent \/ Len(a.vals) # 1 THEN [ok |-> FALSE, v |-> 0]
              ELSE IF a.vals[1].k = "bits" /\ a.vals[1].code = FDOUBL THEN F64Half(a.vals[1].b)
              ELSE LET x == NumInt(a.vals[1]) IN [ok |-> x.ok /\ Abs(x.v) < 500000, v |-> 2 * x.v]

RECURSIVE SliceSlots(_, _, _, _)
SliceSlots(data, p, sizes, acc) ==
  IF sizes = << >> THEN acc
  ELSE SliceSlots(data, p + sizes[1], Tail(sizes), Append(acc, SubSeq(data, p, p + sizes[1] - 1)))

UserAssigned(c, label) == \E i \in DOMAIN c.attrs : c.attrs[i].label = label /\ c.attrs[i].has_val
UserAttr(c, label) == c.attrs[CHOOSE i \in DOMAIN c.attrs : c.attrs[i].label = label /\ c.attrs[i].has_val]

(* fe = expectation of one frame in the write event; multi = several frames / logical files in the file *)
FrameClauses(dec, rgs, lfs, cobj, fe, multi) ==
  LET ci == CanonByOid(cobj, fe.oid) IN
  IF ci = 0 THEN {}
  ELSE
  LET c   == cobj[ci]
      loc == Locate(dec, rgs, lfs, cobj, c)
  IN IF ~loc.ok THEN {}      \* reported by ObjectClauses
  ELSE
  LET r    == dec[loc.ri]
      fo   == r.objs[loc.oi]
      k    == CHOOSE x \in DOMAIN lfs : lfs[x].lf = c.lf
      rg   == rgs[k]
      objs == LfObjects(dec, rg)
      chv  == AttrOf(r, fo, lCHANNELS).vals
      chObj(n) == LET cs == Candidates(objs, chv[n], sFRAME, lCHANNELS) IN
                    IF Cardinality(cs) = 1 THEN CHOOSE o \in cs : TRUE ELSE [ri |-> 0, oi |-> 0]
      nch  == Len(chv)
      cho  == [n \in 1..nch |-> chObj(n)]
      allres == \A n \in 1..nch : cho[n].ri # 0
      code(n) == OneNum(AttrOf(dec[cho[n].ri], dec[cho[n].ri].objs[cho[n].oi], lREPCODE))
      dims(n) == IntsOf(AttrOf(dec[cho[n].ri], dec[cho[n].ri].objs[cho[n].oi], lDIMENSION))
      elim(n) == IntsOf(AttrOf(dec[cho[n].ri], dec[cho[n].ri].objs[cho[n].oi], lELEMLIMIT))
      fd   == SelectSeq([i \in 1..(rg.to - rg.from + 1) |-> dec[rg.from + i - 1]],
                        LAMBDA x : x.k = "I" /\ x.type = 0 /\ x.ok /\ x.origin = fo.origin /\ x.copy = fo.copy /\ x.name = fo.name)
  IN IF ~allres THEN {"C07.RefResolves"}
     ELSE
     LET sizes == [n \in 1..nch |-> IF code(n).ok /\ code(n).v \in DefinedCodes /\ FixedSize(code(n).v) > 0
                                        /\ \A q \in DOMAIN dims(n) : dims(n)[q] >= 1
                                    THEN FixedSize(code(n).v) * Prod(dims(n)) ELSE -1]
         szok  == \A n \in 1..nch : sizes[n] >= 0
         rowlen == IF szok THEN LET f[n \in 0..nch] == IF n = 0 THEN 0 ELSE f[n - 1] + sizes[n] IN f[nch] ELSE -1
         slotOrderOk == nch = Len(fe.chans) /\
                        \A n \in 1..nch : LET cj == CanonByOid(cobj, fe.chans[n].oid) IN
                             cj # 0 /\ LET l2 == Locate(dec, rgs, lfs, cobj, cobj[cj]) IN l2.ok /\ l2.ri = cho[n].ri /\ l2.oi = cho[n].oi
     IN (IF slotOrderOk THEN {} ELSE {"C11.SlotOrder"})
   \cup (IF szok THEN {} ELSE {"C08.ChannelReprCode"})
   \cup (IF nch = Len(fe.chans) /\ \A n \in 1..nch : code(n).ok /\ code(n).v = fe.chans[n].code THEN {} ELSE {"C08.ChannelReprCode"})
   \cup (IF nch = Len(fe.chans) /\ \A n \in 1..nch : dims(n) = fe.chans[n].dims THEN {} ELSE {"C08.ChannelDimension"})
   \cup (IF \A n \in 1..nch : Len(elim(n)) >= Len(dims(n)) /\ \A q \in DOMAIN dims(n) : elim(n)[q] >= dims(n)[q]
         THEN {} ELSE {"C08.ElementLimitBounds"})
   \cup (IF szok /\ \A i \in DOMAIN fd : Len(fd[i].data) = rowlen THEN {} ELSE {"C08.FdataLength"})
   \cup (IF \A i \in DOMAIN fd : fd[i].fno = i THEN {}
         ELSE {"C03.FdataNumbering"} \cup (IF multi THEN {"C18.FrameNumberingPerFrame"} ELSE {}))
   \cup (IF fe.has_rows
         THEN (IF Len(fd) = Len(fe.rows) THEN {} ELSE {"C03.FdataCount"} \cup (IF multi THEN {"C18.RowsInOwnFile"} ELSE {}))
         \cup (IF szok /\ \A i \in 1..Min2(Len(fd), Len(fe.rows)) :
                     Len(fd[i].data) = rowlen /\ SliceSlots(fd[i].data, 1, sizes, << >>) = fe.rows[i]
               THEN {} ELSE {"C03.SlotBytes"})
         ELSE {})
   \cup  \* ---- C13: index metadata ------------------------------------------------------------
        (IF fe.has_rows /\ ~fe.index.ok /\ fe.index.wide.ok
         THEN \* integer index values beyond TLC's integers: judged on the IEEE double images of the exact statistics
         LET w    == fe.index.wide
             nd   == Len(w.dimg)
             imin == AttrOf(r, fo, lINDEXMIN)
             imax == AttrOf(r, fo, lINDEXMAX)
             spc  == AttrOf(r, fo, lSPACING)
             dir  == AttrOf(r, fo, lDIRECTION)
             is(a, img) == ~a.absent /\ Len(a.vals) = 1 /\ a.vals[1].k = "bits" /\ a.vals[1].code = FDOUBL /\ a.vals[1].b = img
             uniform == \A i \in 1..nd : w.dimg[i] = w.dimg[1]
             uMin == UserAssigned(c, lINDEXMIN)   uMax == UserAssigned(c, lINDEXMAX)
             uSpc == UserAssigned(c, lSPACING)    uDir == UserAssigned(c, lDIRECTION)
         IN IF ~UserAssigned(c, lINDEXTYPE) THEN {}
            ELSE (IF ~uMin /\ ~is(imin, w.min) THEN {"C13.IndexMin"} ELSE {})
            \cup (IF ~uMax /\ ~is(imax, w.max) THEN {"C13.IndexMax"} ELSE {})
            \cup (IF ~uSpc /\ nd >= 1 /\ ~spc.absent /\ ~uniform THEN {"C13.SpacingOnlyIfUniform"} ELSE {})
            \cup (IF ~uSpc /\ nd >= 1 /\ ~spc.absent /\ uniform /\ ~is(spc, w.dimg[1]) THEN {"C13.SpacingValue"} ELSE {})
            \cup (IF ~uSpc /\ ~uDir /\ nd >= 1 /\ spc.absent
                  THEN (IF (\A i \in 1..nd : w.dsign[i] > 0) /\ OneStr(dir) # sINCREASING THEN {"C13.Direction"} ELSE {})
                  \cup (IF (\A i \in 1..nd : w.dsign[i] < 0) /\ OneStr(dir) # sDECREASING THEN {"C13.Direction"} ELSE {})
                  ELSE {})
         ELSE IF ~fe.has_rows \/ ~fe.index.ok THEN {}
         ELSE
         LET v    == [i \in DOMAIN fe.index.vals |-> LimToInt(fe.index.vals[i])]
             n    == Len(v)
             vmin == CHOOSE x \in { v[i] : i \in 1..n } : \A i \in 1..n : x <= v[i]
             vmax == CHOOSE x \in { v[i] : i \in 1..n } : \A i \in 1..n : x >= v[i]
             d    == [i \in 1..(n - 1) |-> v[i + 1] - v[i]]
             imin == AttrOf(r, fo, lINDEXMIN)
             imax == AttrOf(r, fo, lINDEXMAX)
             spc  == AttrOf(r, fo, lSPACING)
             dir  == AttrOf(r, fo, lDIRECTION)
             indexed == UserAssigned(c, lINDEXTYPE)
             uMin == UserAssigned(c, lINDEXMIN)   uMax == UserAssigned(c, lINDEXMAX)
             uSpc == UserAssigned(c, lSPACING)    uDir == UserAssigned(c, lDIRECTION)
             kept(lab, a) == LET ua == UserAttr(c, lab) IN
                               ~a.absent /\ Len(a.vals) = Len(ua.val) /\ \A i \in DOMAIN ua.val : ValEq(ua.val[i], a.vals[i], dec, rgs, lfs, cobj)
         IN (IF uMin /\ ~kept(lINDEXMIN, imin) THEN {"C13.UserValueKept"} ELSE {})
       \cup (IF uMax /\ ~kept(lINDEXMAX, imax) THEN {"C13.UserValueKept"} ELSE {})
       \cup (IF uSpc /\ ~kept(lSPACING, spc) THEN {"C13.UserValueKept"} ELSE {})
       \cup (IF uDir /\ ~kept(lDIRECTION, dir) THEN {"C13.UserValueKept"} ELSE {})
       \cup (IF indexed
             \* (the index values are integers below 2^20 here, so a truthful bound decodes to such an integer)
             THEN (IF ~uMin /\ ~(OneNum(imin).ok /\ OneNum(imin).v = vmin) THEN {"C13.IndexMin"} ELSE {})
             \cup (IF ~uMax /\ ~(OneNum(imax).ok /\ OneNum(imax).v = vmax) THEN {"C13.IndexMax"} ELSE {})
             \* (judged in doubled values, so that a spacing of k + 0.5 - the median of an even number of integer differences - is judged too)
             \cup (IF ~uSpc /\ ~spc.absent /\ n >= 2 /\ OneHalf(spc).ok /\ (\A i \in 1..(n - 1) : Abs(d[i]) < 500000)
                   THEN LET s == OneHalf(spc).v
                            dd == [i \in 1..(n - 1) |-> 2 * d[i]]
                            le == Cardinality({ i \in 1..(n - 1) : dd[i] <= s })
                            ge == Cardinality({ i \in 1..(n - 1) : dd[i] >= s })
                        IN
                        (IF \A i \in 1..(n - 1) :
                               IF s # 0 /\ Abs(s) <= 20000 /\ Abs(dd[i]) <= 20000 THEN 1000 * (s - dd[i]) * (s - dd[i]) < s * s ELSE dd[i] = s
                         THEN {} ELSE {"C13.SpacingOnlyIfUniform"})
                   \* "that signed difference": a typical one - at least half of the differences are not above it, at least half not below
                   \cup (IF 2 * le >= n - 1 /\ 2 * ge >= n - 1 THEN {} ELSE {"C13.SpacingValue"})
                   ELSE {})
             \* a single row has no consecutive differences: no SPACING can be "that signed difference"
             \cup (IF ~uSpc /\ ~spc.absent /\ n = 1 THEN {"C13.SpacingOnlyIfUniform"} ELSE {})
             \cup (IF ~uSpc /\ ~uDir /\ spc.absent /\ n >= 2
                   THEN (IF (\A i \in 1..(n - 1) : d[i] > 0) /\ OneStr(dir) # sINCREASING THEN {"C13.Direction"} ELSE {})
                   \cup (IF (\A i \in 1..(n - 1) : d[i] < 0) /\ OneStr(dir) # sDECREASING THEN {"C13.Direction"} ELSE {})
                   ELSE {})
             ELSE (IF ~uMin /\ ~(OneNum(imin).ok /\ OneNum(imin).v = 1) THEN {"C13.RowNumberBounds"} ELSE {})
             \cup (IF ~uMax /\ ~(OneNum(imax).ok /\ OneNum(imax).v = Len(fe.rows)) THEN {"C13.RowNumberBounds"} ELSE {})))

=====================================================================================
