SPECIFICATION Spec
CONSTANTS
  Vals = {0, 1, 2, 3, 254, 255}
  MaxLen = 3
  MaxWrites = 2
  Wrap = 0
  UserVals = {0, 7}
  LateNames = {"min", "max", "spacing", "direction"}
INVARIANT UserValueKept
INVARIANT IndexBounds
INVARIANT RowNumberBounds
INVARIANT SpacingTruthful
INVARIANT DirectionTruthful
CHECK_DEADLOCK FALSE
