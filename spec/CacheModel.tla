--------------------------------- MODULE CacheModel ---------------------------------
(***************************************************************************)
(* Implementation-shaped model of the per-process and per-object caches    *)
(* that C14 is about, across a history of writes and mutations:            *)
(*                                                                         *)
(*   write_struct          lru_cache keyed by (code, value) - typed, and   *)
(*                         bypassed for non-integral numbers and for       *)
(*                         OBNAME / OBJREF values                          *)
(*   EFLRItem.obname       cached_property, invalidated when the name or   *)
(*                         the origin reference is assigned                *)
(*   ChannelItem cast      dtype derived from the data, marked as derived  *)
(*   LogicalFile data      data given to one write are not kept            *)
(*                                                                         *)
(* Values are abstract Python objects [t, v]: t in {"int","float","bool",  *)
(* "str"}, with Python's equality and hash (1 == 1.0 == True; 0.0 == -0.0  *)
(* where -0.0 is written "nz"; the two readings fold=0 / fold=1 of a wall  *)
(* clock time that occurs twice when daylight saving time ends are equal   *)
(* and hash alike, but are an hour apart in UTC: "dt" values t0 / t1).     *)
(* Enc gives the bytes a fresh process                                     *)
(* writes; Written gives what this process writes.  The switches Typed /   *)
(* BypassFloat / BypassDtime / BypassRef / Invalidate / MarkDerived /      *)
(* KeepData select                                                         *)
(* the historical behaviour (all FALSE resp. TRUE reproduces the pinned    *)
(* tree and makes the invariants fail - used by the selftest).             *)
(***************************************************************************)
EXTENDS Naturals, Sequences, FiniteSets, TLC

CONSTANTS Typed, BypassFloat, BypassDtime, BypassRef, Invalidate, MarkDerived, KeepData, MaxOps

VARIABLES
  vcache,     \* set of [key, bytes]: the write_struct cache
  name, oref, \* the item: current name / origin reference
  obcache,    \* cached OBNAME of the item: << >> = none, else <<name, origin>>
  refcache,   \* OBJREF of the item in the write_struct cache ( << >> = none )
  cast,       \* channel dtype: [dt, derived] or "none"-like [dt |-> "", derived |-> FALSE]
  kept,       \* data kept by the logical file from an earlier write ("" = none)
  out,        \* what the last write emitted
  want,       \* what a fresh process would emit for the same specification and data
  nops

vars == << vcache, name, oref, obcache, refcache, cast, kept, out, want, nops >>

Vals == { [t |-> "int", v |-> "1"], [t |-> "float", v |-> "1"], [t |-> "bool", v |-> "1"],
          [t |-> "int", v |-> "0"], [t |-> "float", v |-> "0"], [t |-> "float", v |-> "nz"],
          [t |-> "dt", v |-> "t0"], [t |-> "dt", v |-> "t1"] }
(* Python equality / hash classes *)
PyKey(x) == IF x.v = "nz" THEN "0" ELSE IF x.t = "dt" THEN "t" ELSE x.v
Codes == {"ASCII", "FDOUBL"}
(* the bytes a fresh process writes *)
Enc(c, x) == IF c = "ASCII" THEN << x.t, x.v >>        \* str(1) = "1", str(1.0) = "1.0", str(True) = "True", str(-0.0) = "-0.0"
             ELSE << "f8", x.v >>                       \* 1, 1.0 and True give the same double; 0.0 and -0.0 do not
Key(c, x) == IF Typed THEN << c, x.t, PyKey(x) >> ELSE << c, PyKey(x) >>
Cached(c, x) == { e \in vcache : e.key = Key(c, x) }
Bypass(x) == (BypassFloat /\ x.t = "float") \/ (BypassDtime /\ x.t = "dt")
WriteStruct(c, x) == IF Bypass(x) \/ Cached(c, x) = {} THEN Enc(c, x) ELSE (CHOOSE e \in Cached(c, x) : TRUE).bytes
CacheAfter(c, x) == IF Bypass(x) \/ Cached(c, x) # {} THEN vcache ELSE vcache \cup {[key |-> Key(c, x), bytes |-> Enc(c, x)]}

Names == {"A", "B"}
Origins == {1, 2}
DTypes == {"f4", "f8"}
NoCast == [dt |-> "", derived |-> FALSE]

Init ==
  /\ vcache = {} /\ name = "A" /\ oref = 1 /\ obcache = << >> /\ refcache = << >>
  /\ cast \in {NoCast, [dt |-> "f4", derived |-> FALSE]} /\ kept = ""
  /\ out = << >> /\ want = << >> /\ nops = 0

Rename(n) ==
  /\ nops < MaxOps /\ name' = n /\ obcache' = IF Invalidate THEN << >> ELSE obcache
  /\ nops' = nops + 1 /\ UNCHANGED << vcache, oref, refcache, cast, kept, out, want >>

SetOrigin(o) ==
  /\ nops < MaxOps /\ oref' = o /\ obcache' = IF Invalidate THEN << >> ELSE obcache
  /\ nops' = nops + 1 /\ UNCHANGED << vcache, name, refcache, cast, kept, out, want >>

(* one write: an attribute value x under code c, the item's header (obname), a reference to it (objref), *)
(* the channel data of dtype dt given at this write ("" = none given)                                    *)
Write(c, x, dt) ==
  /\ nops < MaxOps
  /\ LET ob   == IF obcache = << >> THEN << name, oref >> ELSE obcache
         ref  == IF BypassRef \/ refcache = << >> THEN ob ELSE refcache
         data == IF dt # "" THEN dt ELSE kept
         eff  == IF cast.dt # "" /\ ~(MarkDerived /\ cast.derived) THEN cast.dt ELSE data     \* dtype the rows are written in
         fresh == IF cast.dt # "" /\ ~cast.derived THEN cast.dt ELSE dt                       \* a fresh process: user cast or the data given now
     IN /\ out'  = << WriteStruct(c, x), ob, ref, eff >>
        /\ want' = << Enc(c, x), << name, oref >>, << name, oref >>, fresh >>
        /\ vcache' = CacheAfter(c, x)
        /\ obcache' = ob
        /\ refcache' = IF BypassRef THEN refcache ELSE ref
        /\ cast' = IF cast.dt # "" /\ ~(MarkDerived /\ cast.derived) THEN cast
                   ELSE IF data # "" THEN [dt |-> data, derived |-> TRUE] ELSE cast
        /\ kept' = IF KeepData /\ dt # "" THEN dt ELSE kept
  /\ nops' = nops + 1 /\ UNCHANGED << name, oref >>

Next == (\E n \in Names : Rename(n)) \/ (\E o \in Origins : SetOrigin(o))
        \/ (\E c \in Codes, x \in Vals, dt \in DTypes \cup {""} : Write(c, x, dt))
Spec == Init /\ [][Next]_vars

(* C14: what is written equals what a fresh process writes for the current specification and data *)
HistoryIndependent == out = want
=====================================================================================
