SPECIFICATION Spec
INVARIANT GrammarOk
INVARIANT Faithful
INVARIANT FailClosed
CHECK_DEADLOCK FALSE
