--------------------------------- MODULE RP66Prim ---------------------------------
(***************************************************************************)
(* RP66 V1 primitive representation codes (normative level).               *)
(*                                                                         *)
(* Bytes and text are sequences over 0..255 (text: code points, which may  *)
(* exceed 127 and even 255 for non-ASCII input).  Integers that may leave  *)
(* TLC's 32-bit range are "signed limbs" [neg, hi, lo] with magnitude      *)
(* hi*65536+lo.  Floating point values are given as their IEEE-754 bit     *)
(* patterns (big-endian byte sequence); TLC never does float arithmetic.   *)
(*                                                                         *)
(* Encoders (EncX) and decoders (DecX) are written independently: the      *)
(* encoder is arithmetic on the value, the decoder is positional on the    *)
(* bytes.  PrimModel.tla checks Dec(Enc(v)) = v over boundary domains.     *)
(***************************************************************************)
EXTENDS Naturals, Integers, Sequences, FiniteSets

Max2(a, b) == IF a > b THEN a ELSE b
Min2(a, b) == IF a < b THEN a ELSE b

Bytes(s)   == \A i \in DOMAIN s : s[i] \in 0..255
IsAscii(s) == \A i \in DOMAIN s : s[i] \in 0..127

U16BE(v) == << v \div 256, v % 256 >>

(* ---------------- representation code numbers -------------------------- *)
FSHORT == 1   FSINGL == 2   FSING1 == 3   FSING2 == 4   ISINGL == 5   VSINGL == 6
FDOUBL == 7   FDOUB1 == 8   FDOUB2 == 9   CSINGL == 10  CDOUBL == 11
SSHORT == 12  SNORM == 13   SLONG == 14   USHORT == 15  UNORM == 16   ULONG == 17
UVARI == 18   IDENT == 19   ASCII == 20   DTIME == 21   ORIGIN == 22  OBNAME == 23
OBJREF == 24  ATTREF == 25  STATUS == 26  UNITS == 27

DefinedCodes == 1..27

(* size in bytes of the fixed-width codes; 0 = variable                    *)
FixedSize(c) ==
  CASE c = FSHORT -> 2 [] c = FSINGL -> 4 [] c = FSING1 -> 8 [] c = FSING2 -> 12
    [] c = ISINGL -> 4 [] c = VSINGL -> 4 [] c = FDOUBL -> 8 [] c = FDOUB1 -> 16
    [] c = FDOUB2 -> 24 [] c = CSINGL -> 8 [] c = CDOUBL -> 16
    [] c = SSHORT -> 1 [] c = SNORM -> 2 [] c = SLONG -> 4
    [] c = USHORT -> 1 [] c = UNORM -> 2 [] c = ULONG -> 4
    [] c = DTIME -> 8 [] c = STATUS -> 1
    [] OTHER -> 0

(* ---------------- signed-limb integers ---------------------------------- *)
Lim(neg, hi, lo) == [neg |-> neg, hi |-> hi, lo |-> lo]
LimOfNat(n)      == Lim(FALSE, n \div 65536, n % 65536)           \* 0 <= n < 2^31
LimIsSmall(v)    == v.hi < 16384                                    \* |v| < 2^30
LimToInt(v)      == IF v.neg THEN 0 - (v.hi * 65536 + v.lo) ELSE v.hi * 65536 + v.lo  \* only if LimIsSmall
LimZero(v)       == v.hi = 0 /\ v.lo = 0
LimWellFormed(v) == v.hi \in Nat /\ v.lo \in 0..65535 /\ (LimZero(v) => ~v.neg)
LimLess(a, b) ==       \* a < b on signed limbs
  IF a.neg /\ ~b.neg THEN ~(LimZero(a) /\ LimZero(b))
  ELSE IF ~a.neg /\ b.neg THEN FALSE
  ELSE IF ~a.neg THEN (a.hi < b.hi \/ (a.hi = b.hi /\ a.lo < b.lo))
  ELSE (b.hi < a.hi \/ (a.hi = b.hi /\ b.lo < a.lo))

IntRepresentable(c, v) ==
  CASE c = USHORT -> ~v.neg /\ v.hi = 0 /\ v.lo <= 255
    [] c = UNORM  -> ~v.neg /\ v.hi = 0
    [] c = ULONG  -> ~v.neg /\ v.hi <= 65535
    [] c = UVARI  -> ~v.neg /\ v.hi < 16384
    [] c = SSHORT -> v.hi = 0 /\ (IF v.neg THEN v.lo <= 128 ELSE v.lo <= 127)
    [] c = SNORM  -> v.hi = 0 /\ (IF v.neg THEN v.lo <= 32768 ELSE v.lo <= 32767)
    [] c = SLONG  -> IF v.neg THEN (v.hi < 32768 \/ (v.hi = 32768 /\ v.lo = 0)) ELSE v.hi < 32768
    [] c = STATUS -> ~v.neg /\ v.hi = 0 /\ v.lo <= 1
    [] OTHER -> FALSE

IntCodes == {USHORT, UNORM, ULONG, UVARI, SSHORT, SNORM, SLONG}

EncUvariNat(n) ==          \* 0 <= n < 2^30, canonical (shortest) form
  IF n < 128 THEN << n >>
  ELSE IF n < 16384 THEN << 128 + n \div 256, n % 256 >>
  ELSE << 192 + n \div 16777216, (n \div 65536) % 256, (n \div 256) % 256, n % 256 >>

(* two's complement of magnitude (hi,lo) on 32 bits, as limbs              *)
Neg32(hi, lo) == IF lo = 0 THEN << (65536 - hi) % 65536, 0 >> ELSE << 65535 - hi, 65536 - lo >>

EncInt(c, v) ==            \* defined when IntRepresentable(c, v)
  CASE c = USHORT -> << v.lo >>
    [] c = STATUS -> << v.lo >>
    [] c = UNORM  -> U16BE(v.lo)
    [] c = ULONG  -> U16BE(v.hi) \o U16BE(v.lo)
    [] c = UVARI  -> EncUvariNat(v.hi * 65536 + v.lo)
    [] c = SSHORT -> IF v.neg THEN << 256 - v.lo >> ELSE << v.lo >>
    [] c = SNORM  -> IF v.neg THEN U16BE(65536 - v.lo) ELSE U16BE(v.lo)
    [] c = SLONG  -> IF v.neg THEN LET t == Neg32(v.hi, v.lo) IN U16BE(t[1]) \o U16BE(t[2])
                     ELSE U16BE(v.hi) \o U16BE(v.lo)

(* ---------------- decoders (positional) --------------------------------- *)
Fits(B, p, n) == p >= 1 /\ p + n - 1 <= Len(B)
NoDec == [ok |-> FALSE, n |-> 0]

DecUvari(B, p) ==          \* -> [ok, v (Nat < 2^30), n]
  IF ~Fits(B, p, 1) THEN [ok |-> FALSE, v |-> 0, n |-> 0]
  ELSE LET b == B[p] IN
    IF b < 128 THEN [ok |-> TRUE, v |-> b, n |-> 1]
    ELSE IF b < 192 THEN
      IF Fits(B, p, 2) THEN [ok |-> TRUE, v |-> (b - 128) * 256 + B[p+1], n |-> 2]
      ELSE [ok |-> FALSE, v |-> 0, n |-> 0]
    ELSE
      IF Fits(B, p, 4) THEN [ok |-> TRUE, v |-> (b - 192) * 16777216 + B[p+1] * 65536 + B[p+2] * 256 + B[p+3], n |-> 4]
      ELSE [ok |-> FALSE, v |-> 0, n |-> 0]

DecInt(c, B, p) ==         \* fixed-width integer codes -> [ok, v (limbs), n]
  LET w == IF c = UVARI THEN 0 ELSE FixedSize(c) IN
  IF c = UVARI THEN LET d == DecUvari(B, p) IN [ok |-> d.ok, v |-> LimOfNat(d.v), n |-> d.n]
  ELSE IF ~Fits(B, p, w) THEN [ok |-> FALSE, v |-> Lim(FALSE, 0, 0), n |-> 0]
  ELSE CASE c \in {USHORT, STATUS} -> [ok |-> TRUE, v |-> Lim(FALSE, 0, B[p]), n |-> 1]
    [] c = UNORM -> [ok |-> TRUE, v |-> Lim(FALSE, 0, B[p] * 256 + B[p+1]), n |-> 2]
    [] c = ULONG -> [ok |-> TRUE, v |-> Lim(FALSE, B[p] * 256 + B[p+1], B[p+2] * 256 + B[p+3]), n |-> 4]
    [] c = SSHORT -> [ok |-> TRUE, v |-> IF B[p] >= 128 THEN Lim(TRUE, 0, 256 - B[p]) ELSE Lim(FALSE, 0, B[p]), n |-> 1]
    [] c = SNORM -> LET u == B[p] * 256 + B[p+1] IN
         [ok |-> TRUE, v |-> IF u >= 32768 THEN Lim(TRUE, 0, 65536 - u) ELSE Lim(FALSE, 0, u), n |-> 2]
    [] c = SLONG -> LET hi == B[p] * 256 + B[p+1]  lo == B[p+2] * 256 + B[p+3] IN
         [ok |-> TRUE,
          v |-> IF hi >= 32768 THEN (IF lo = 0 THEN Lim(TRUE, 65536 - hi, 0) ELSE Lim(TRUE, 65535 - hi, 65536 - lo))
                ELSE Lim(FALSE, hi, lo),
          n |-> 4]

(* IDENT / UNITS: USHORT length then that many bytes.                      *)
DecIdent(B, p) ==          \* -> [ok, s, n]
  IF ~Fits(B, p, 1) THEN [ok |-> FALSE, s |-> << >>, n |-> 0]
  ELSE LET l == B[p] IN
    IF Fits(B, p, 1 + l) THEN [ok |-> TRUE, s |-> SubSeq(B, p + 1, p + l), n |-> 1 + l]
    ELSE [ok |-> FALSE, s |-> << >>, n |-> 0]

(* ASCII: UVARI length then that many bytes.                               *)
DecAscii(B, p) ==
  LET d == DecUvari(B, p) IN
  IF ~d.ok THEN [ok |-> FALSE, s |-> << >>, n |-> 0]
  ELSE IF Fits(B, p, d.n + d.v) THEN [ok |-> TRUE, s |-> SubSeq(B, p + d.n, p + d.n + d.v - 1), n |-> d.n + d.v]
  ELSE [ok |-> FALSE, s |-> << >>, n |-> 0]

(* OBNAME: origin UVARI, copy USHORT, name IDENT.                          *)
DecObname(B, p) ==         \* -> [ok, origin, copy, name, n]
  LET o == DecUvari(B, p) IN
  IF ~o.ok \/ ~Fits(B, p + o.n, 1) THEN [ok |-> FALSE, origin |-> 0, copy |-> 0, name |-> << >>, n |-> 0]
  ELSE LET c == B[p + o.n]   i == DecIdent(B, p + o.n + 1) IN
    IF ~i.ok THEN [ok |-> FALSE, origin |-> 0, copy |-> 0, name |-> << >>, n |-> 0]
    ELSE [ok |-> TRUE, origin |-> o.v, copy |-> c, name |-> i.s, n |-> o.n + 1 + i.n]

(* OBJREF: type IDENT then OBNAME.                                         *)
DecObjref(B, p) ==         \* -> [ok, type, origin, copy, name, n]
  LET t == DecIdent(B, p) IN
  IF ~t.ok THEN [ok |-> FALSE, type |-> << >>, origin |-> 0, copy |-> 0, name |-> << >>, n |-> 0]
  ELSE LET o == DecObname(B, p + t.n) IN
    [ok |-> o.ok, type |-> t.s, origin |-> o.origin, copy |-> o.copy, name |-> o.name, n |-> t.n + o.n]

(* ATTREF: type IDENT, OBNAME, label IDENT.                                *)
DecAttref(B, p) ==
  LET r == DecObjref(B, p) IN
  IF ~r.ok THEN [ok |-> FALSE, n |-> 0]
  ELSE LET l == DecIdent(B, p + r.n) IN [ok |-> l.ok, n |-> r.n + l.n]

DecDtime(B, p) ==          \* -> [ok, y, tz, mo, d, h, mi, s, ms, n]
  IF ~Fits(B, p, 8) THEN [ok |-> FALSE, n |-> 0]
  ELSE [ok |-> TRUE, y |-> B[p], tz |-> B[p+1] \div 16, mo |-> B[p+1] % 16, d |-> B[p+2], h |-> B[p+3],
        mi |-> B[p+4], s |-> B[p+5], ms |-> B[p+6] * 256 + B[p+7], n |-> 8]

(* Length of one value of representation code c at position p; -1 = cannot *)
(* be decoded (truncated).  Used by the EFLR grammar to skip values.       *)
ValueLen(c, B, p) ==
  LET f == FixedSize(c) IN
  IF f > 0 THEN (IF Fits(B, p, f) THEN f ELSE -1)
  ELSE CASE c = UVARI  -> LET d == DecUvari(B, p) IN IF d.ok THEN d.n ELSE -1
         [] c = ORIGIN -> LET d == DecUvari(B, p) IN IF d.ok THEN d.n ELSE -1
         [] c \in {IDENT, UNITS} -> LET d == DecIdent(B, p) IN IF d.ok THEN d.n ELSE -1
         [] c = ASCII  -> LET d == DecAscii(B, p) IN IF d.ok THEN d.n ELSE -1
         [] c = OBNAME -> LET d == DecObname(B, p) IN IF d.ok THEN d.n ELSE -1
         [] c = OBJREF -> LET d == DecObjref(B, p) IN IF d.ok THEN d.n ELSE -1
         [] c = ATTREF -> LET d == DecAttref(B, p) IN IF d.ok THEN d.n ELSE -1
         [] OTHER -> -1

(* ---------------- encoders for the composite codes ---------------------- *)
IdentRepresentable(s) == Len(s) <= 255 /\ IsAscii(s)
EncIdent(s)  == << Len(s) >> \o s
AsciiRepresentable(s) == Len(s) < 1073741824 /\ IsAscii(s)
EncAscii(s)  == EncUvariNat(Len(s)) \o s

ObnameRepresentable(o) ==      \* o = [origin (limbs), copy (limbs), name]
  IntRepresentable(UVARI, o.origin) /\ IntRepresentable(USHORT, o.copy) /\ IdentRepresentable(o.name)
EncObname(o) == EncInt(UVARI, o.origin) \o EncInt(USHORT, o.copy) \o EncIdent(o.name)

ObjrefRepresentable(r) == IdentRepresentable(r.type) /\ ObnameRepresentable(r)
EncObjref(r) == EncIdent(r.type) \o EncObname(r)

(* date-time given as UTC calendar fields; year is the calendar year.      *)
DtimeRepresentable(t) == t.y \in 1900..2155
DtimeFieldsOk(t) == t.mo \in 1..12 /\ t.d \in 1..31 /\ t.h \in 0..23 /\ t.mi \in 0..59 /\ t.s \in 0..59 /\ t.us \in 0..999999
MsFloor(us) == us \div 1000
MsCeil(us)  == Min2(999, (us + 999) \div 1000)
EncDtimeWith(t, tz, ms) == << t.y - 1900, tz * 16 + t.mo, t.d, t.h, t.mi, t.s >> \o U16BE(ms)
(* the set of acceptable encodings: GMT zone, millisecond floor or ceiling *)
EncDtimeSet(t) == { EncDtimeWith(t, 2, MsFloor(t.us)), EncDtimeWith(t, 2, MsCeil(t.us)) }

=====================================================================================
