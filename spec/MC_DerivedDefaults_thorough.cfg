SPECIFICATION Spec
CONSTANTS
  MaxOps = 10
  LongFollows = TRUE
  LongMark = TRUE
  DimFollows = TRUE
  DimMark = TRUE
  LimMark = TRUE
  LimKeepsGiven = TRUE
  ParFollows = TRUE
  ParMark = TRUE
VIEW noHist
INVARIANT HistoryIndependent
INVARIANT UserValueKept
INVARIANT Truthful
CHECK_DEADLOCK FALSE
