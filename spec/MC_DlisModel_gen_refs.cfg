SPECIFICATION Spec
CONSTANTS
  MaxLf = 2
  MaxCalls = 7
  Names = {"A"}
  SetNames = {0, 1}
  Classes = {"ZONE", "PARAMETER"}
  OriginRefs = {0}
  RefFrom = "PARAMETER"
  RefTo = "ZONE"
  HeaderShare = TRUE
  OkSet = {TRUE, FALSE}
  ForeignRefCheck = TRUE
  HeaderSetCheck = TRUE
  Mutations = FALSE
  CopyRule = "firstfree"
  ItemRefs = {0, 7}
INVARIANT PrintLeaf
CHECK_DEADLOCK FALSE
