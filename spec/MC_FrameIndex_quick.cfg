SPECIFICATION Spec
CONSTANTS
  Vals = {0, 1, 3, 255}
  MaxLen = 3
  MaxWrites = 2
  Wrap = 0
  UserVals = {0}
  LateNames = {"min", "spacing"}
INVARIANT UserValueKept
INVARIANT IndexBounds
INVARIANT RowNumberBounds
INVARIANT SpacingTruthful
INVARIANT DirectionTruthful
CHECK_DEADLOCK FALSE
