SPECIFICATION Spec
CONSTANTS
  MaxOps = 4
  LongFollows = TRUE
  LongMark = TRUE
  DimFollows = TRUE
  DimMark = TRUE
  LimMark = TRUE
  LimKeepsGiven = TRUE
  ParFollows = TRUE
  ParMark = TRUE
INVARIANT PrintLeaf
CHECK_DEADLOCK FALSE
