--------------------------------- MODULE RP66Frame ---------------------------------
(***************************************************************************)
(* RP66 V1 physical layout (normative level): storage unit label, visible  *)
(* records, logical record segments.  A strict *reader*: it accepts any    *)
(* well-formed layout (several segments per visible record, any pad count, *)
(* any tiling) and names the clause that a malformed file breaks.          *)
(*                                                                         *)
(* The reader is a pure step function VRStep(B, st) over reader states, so *)
(* the same definition is used (a) as the per-step action of the trace     *)
(* specification (one TLC step per visible record), and (b) folded by      *)
(* ReadAll over the small files produced by the Segmenter model.           *)
(*                                                                         *)
(* Clause names carry the id of the property they belong to.               *)
(***************************************************************************)
EXTENDS RP66Prim

Bit(b, w) == (b \div w) % 2 = 1
U16At(B, p) == B[p] * 256 + B[p + 1]

(* ---------------- storage unit label ------------------------------------ *)
RECURSIVE LStrip(_), RStrip(_), DigitsVal(_, _)
LStrip(s) == IF s # << >> /\ s[1] = 32 THEN LStrip(Tail(s)) ELSE s
RStrip(s) == IF s # << >> /\ s[Len(s)] = 32 THEN RStrip(SubSeq(s, 1, Len(s) - 1)) ELSE s
Strip(s)  == LStrip(RStrip(s))
IsDigits(s) == s # << >> /\ \A i \in DOMAIN s : s[i] \in 48..57
DigitsVal(s, acc) == IF s = << >> THEN acc ELSE DigitsVal(Tail(s), acc * 10 + (s[1] - 48))   \* short strings only
NumField(s) == LET t == Strip(s) IN IF IsDigits(t) /\ Len(t) <= 9 THEN DigitsVal(t, 0) ELSE -1

SulVersionBytes   == << 86, 49, 46, 48, 48 >>            \* "V1.00"
SulStructureBytes == << 82, 69, 67, 79, 82, 68 >>        \* "RECORD"

(* maximum record length declared by the label itself (-1 if unreadable)   *)
SulDeclaredMax(B) == IF Len(B) >= 80 THEN NumField(SubSeq(B, 16, 20)) ELSE -1

(* cfg = [seq |-> Nat, vrl |-> Nat, setid |-> bytes]: the configured label *)
SulClauses(B, cfg) ==
  IF Len(B) < 80 THEN {"C01.SulLength"}
  ELSE LET L == SubSeq(B, 1, 80) IN
       (IF \A i \in 1..80 : L[i] \in 32..126 THEN {} ELSE {"C01.SulAscii"})
  \cup (IF NumField(SubSeq(L, 1, 4)) = cfg.seq THEN {} ELSE {"C01.SulSeqNo"})
  \cup (IF SubSeq(L, 5, 9) = SulVersionBytes THEN {} ELSE {"C01.SulVersion"})
  \cup (IF Strip(SubSeq(L, 10, 15)) = SulStructureBytes THEN {} ELSE {"C01.SulStructure"})
  \cup (IF NumField(SubSeq(L, 16, 20)) = cfg.vrl THEN {} ELSE {"C01.SulMaxLen"})
  \cup (IF Strip(SubSeq(L, 21, 80)) = Strip(cfg.setid) THEN {} ELSE {"C01.SulSetId"})

(* ---------------- reader state ------------------------------------------ *)
(* pos   next unread byte (1-based); Len(B)+1 when finished                *)
(* open  a logical record is being assembled                               *)
(* cur   [eflr, type, body] of the open record                             *)
(* out   records closed by the last step, in order                         *)
(* bad   set of violated clause names; stop = reader gave up (fatal)       *)
(* nvr, nseg  counters (for coverage reporting)                            *)
NoRec == [eflr |-> FALSE, type |-> 0, body |-> << >>]
ReaderInit == [pos |-> 81, open |-> FALSE, cur |-> NoRec, out |-> << >>, bad |-> {}, stop |-> FALSE,
               nvr |-> 0, nseg |-> 0, npad |-> 0, nmulti |-> 0]

(* One segment at q inside a visible record ending at vrEnd (inclusive).   *)
(* Returns the updated [q, open, cur, out, bad, fatal].                    *)
SegStep(B, q, vrEnd, s) ==
  IF q + 3 > vrEnd THEN [s EXCEPT !.bad = @ \cup {"C01.VrTiled"}, !.fatal = TRUE]
  ELSE
  LET len  == U16At(B, q)
      attr == B[q + 2]
      type == B[q + 3]
      eflr == Bit(attr, 128)
      pred == Bit(attr, 64)
      succ == Bit(attr, 32)
      padF == Bit(attr, 1)
      over == q + len - 1 > vrEnd
      tiny == len < 4
      pc   == IF padF /\ ~over /\ ~tiny THEN B[q + len - 1] ELSE 0
      pcOk == ~padF \/ (1 <= pc /\ pc <= len - 4)
      body == IF over \/ tiny \/ ~pcOk THEN << >> ELSE SubSeq(B, q + 4, q + len - 1 - pc)
      bad  == (IF len % 2 = 1 THEN {"C01.SegLenEven"} ELSE {})
         \cup (IF len < 16 THEN {"C01.SegLenMin"} ELSE {})
         \cup (IF over THEN {"C01.VrTiled"} ELSE {})
         \cup (IF Bit(attr, 16) \/ Bit(attr, 8) THEN {"C01.SegNoEncryption"} ELSE {})
         \cup (IF Bit(attr, 4) THEN {"C01.SegNoChecksum"} ELSE {})
         \cup (IF Bit(attr, 2) THEN {"C01.SegNoTrailingLength"} ELSE {})
         \cup (IF ~pcOk THEN {"C01.SegPadCount"} ELSE {})
         \cup (IF s.open /\ ~pred THEN {"C02.NoInterleave"} ELSE {})
         \cup (IF ~s.open /\ pred THEN {"C02.FirstHasNoPredecessor"} ELSE {})
         \cup (IF s.open /\ pred /\ type # s.cur.type THEN {"C02.SegTypeConstant"} ELSE {})
         \cup (IF s.open /\ pred /\ eflr # s.cur.eflr THEN {"C02.SegEflrConstant"} ELSE {})
      \* a segment without predecessor always starts a new record (an unterminated one is dropped, already flagged)
      ncur == IF s.open /\ pred THEN [s.cur EXCEPT !.body = @ \o body]
              ELSE [eflr |-> eflr, type |-> type, body |-> body]
  IN [q     |-> q + Max2(len, 4),
      open  |-> succ,
      cur   |-> IF succ THEN ncur ELSE NoRec,
      out   |-> IF succ THEN s.out ELSE Append(s.out, ncur),
      bad   |-> s.bad \cup bad,
      fatal |-> over \/ tiny,
      nseg  |-> s.nseg + 1,
      npad  |-> s.npad + (IF padF THEN 1 ELSE 0)]

RECURSIVE SegLoop(_, _, _)
SegLoop(B, vrEnd, s) ==
  IF s.fatal \/ s.q > vrEnd THEN s ELSE SegLoop(B, vrEnd, SegStep(B, s.q, vrEnd, s))

(* One visible record.  declMax = maximum length declared in the label.    *)
VRStep(B, declMax, st) ==
  LET p == st.pos IN
  IF p + 3 > Len(B) THEN [st EXCEPT !.bad = @ \cup {"C01.VrWhole"}, !.stop = TRUE, !.pos = Len(B) + 1, !.out = << >>]
  ELSE
  LET len   == U16At(B, p)
      whole == p + len - 1 <= Len(B)
      bad0  == (IF B[p + 2] = 255 /\ B[p + 3] = 1 THEN {} ELSE {"C01.VrMarker"})
          \cup (IF len % 2 = 1 THEN {"C01.VrLenEven"} ELSE {})
          \cup (IF len < 20 THEN {"C01.VrLenMin"} ELSE {})
          \cup (IF declMax >= 0 /\ len > declMax THEN {"C01.VrLenMax"} ELSE {})
          \cup (IF whole THEN {} ELSE {"C01.VrWhole"})
      fatal0 == ~whole \/ len < 8 \/ ~(B[p + 2] = 255 /\ B[p + 3] = 1)
  IN IF fatal0
     THEN [st EXCEPT !.bad = @ \cup bad0, !.stop = TRUE, !.pos = Len(B) + 1, !.out = << >>, !.nvr = @ + 1]
     ELSE LET vrEnd == p + len - 1
              s0 == [q |-> p + 4, open |-> st.open, cur |-> st.cur, out |-> << >>, bad |-> st.bad \cup bad0,
                     fatal |-> FALSE, nseg |-> 0, npad |-> 0]
              s1 == SegLoop(B, vrEnd, s0)
          IN [pos  |-> IF s1.fatal THEN Len(B) + 1 ELSE vrEnd + 1,
              open |-> s1.open, cur |-> s1.cur, out |-> s1.out, bad |-> s1.bad, stop |-> s1.fatal,
              nvr  |-> st.nvr + 1, nseg |-> st.nseg + s1.nseg, npad |-> st.npad + s1.npad,
              nmulti |-> st.nmulti + (IF s1.nseg > 1 THEN 1 ELSE 0)]

ReaderDone(B, st) == st.pos > Len(B)

(* clauses decided at end of file                                          *)
(* (a reader that had to stop before the end of the file has not reassembled "the segments of the output file": whatever  *)
(*  follows - a second label, stale bytes of an earlier file or chunk - is content the writer was not given)                *)
EofClauses(st) == (IF st.open /\ ~st.stop THEN {"C02.RecordTerminated"} ELSE {})
             \cup (IF st.stop THEN {"C02.Reassembles"} ELSE {})

(* ---------------- whole-file fold (small files only) -------------------- *)
RECURSIVE ReadLoop(_, _, _, _)
ReadLoop(B, declMax, st, recs) ==
  IF ReaderDone(B, st) THEN [recs |-> recs, bad |-> st.bad \cup EofClauses(st), st |-> st]
  ELSE LET st1 == VRStep(B, declMax, st) IN ReadLoop(B, declMax, st1, recs \o st1.out)

ReadAll(B) == ReadLoop(B, SulDeclaredMax(B), ReaderInit, << >>)

(* ---------------- C02: reassembled records vs. the records handed in ---- *)
(* tap = sequence of [eflr, type, body] as given to the segmenter.         *)
RecordClauses(recs, tap) ==
     (IF Len(recs) = Len(tap) THEN {} ELSE {"C02.RecordCount"})
  \cup (IF \A i \in 1..Min2(Len(recs), Len(tap)) : recs[i].body = tap[i].body THEN {} ELSE {"C02.RecordOrderBody"})
  \cup (IF \A i \in 1..Min2(Len(recs), Len(tap)) : recs[i].eflr = tap[i].eflr THEN {} ELSE {"C02.RecordEflrFlag"})
  \cup (IF \A i \in 1..Min2(Len(recs), Len(tap)) : recs[i].type = tap[i].type THEN {} ELSE {"C02.RecordType"})

=====================================================================================
