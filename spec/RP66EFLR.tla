--------------------------------- MODULE RP66EFLR ---------------------------------
(***************************************************************************)
(* RP66 V1 explicitly formatted logical records: the component grammar     *)
(* (normative level).  DecodeEflr(B) parses a record body into             *)
(*   set      [type, name, hasName]                                        *)
(*   tmpl     sequence of [label, count, code, units, hasValue]            *)
(*   objs     sequence of [origin, copy, name, attrs]                      *)
(*            attrs: sequence of [absent, count, code, units, hasValue,    *)
(*                                pos, len]  (values located, not decoded) *)
(*   bad      set of violated C04 clause names                             *)
(* Template defaults are inherited by object attributes exactly as the     *)
(* standard prescribes (label '', count 1, code IDENT, units '', no value) *)
(* although this writer never relies on them.                              *)
(***************************************************************************)
EXTENDS RP66Prim

Role(b)  == b \div 32
FBit(b, w) == (b \div w) % 2 = 1

ABSATR == 0  ATTRIB == 1  INVATR == 2  OBJECT == 3  RDSET == 5  RSET == 6  SETC == 7

(* ---- lengths without materialising sub-sequences ------------------------ *)
UvariLen(B, p) ==
  IF ~Fits(B, p, 1) THEN -1
  ELSE IF B[p] < 128 THEN 1
  ELSE IF B[p] < 192 THEN (IF Fits(B, p, 2) THEN 2 ELSE -1)
  ELSE (IF Fits(B, p, 4) THEN 4 ELSE -1)
IdentLen(B, p) == IF Fits(B, p, 1) /\ Fits(B, p, 1 + B[p]) THEN 1 + B[p] ELSE -1
AsciiLen(B, p) ==
  LET d == DecUvari(B, p) IN IF d.ok /\ Fits(B, p, d.n + d.v) THEN d.n + d.v ELSE -1
ObnameLen(B, p) ==
  LET a == UvariLen(B, p) IN
  IF a < 0 \/ ~Fits(B, p + a, 1) THEN -1
  ELSE LET i == IdentLen(B, p + a + 1) IN IF i < 0 THEN -1 ELSE a + 1 + i
ObjrefLen(B, p) ==
  LET t == IdentLen(B, p) IN
  IF t < 0 THEN -1 ELSE LET o == ObnameLen(B, p + t) IN IF o < 0 THEN -1 ELSE t + o
AttrefLen(B, p) ==
  LET r == ObjrefLen(B, p) IN
  IF r < 0 THEN -1 ELSE LET l == IdentLen(B, p + r) IN IF l < 0 THEN -1 ELSE r + l

OneLen(c, B, p) ==
  LET f == FixedSize(c) IN
  IF f > 0 THEN (IF Fits(B, p, f) THEN f ELSE -1)
  ELSE CASE c \in {UVARI, ORIGIN} -> UvariLen(B, p)
         [] c \in {IDENT, UNITS}  -> IdentLen(B, p)
         [] c = ASCII  -> AsciiLen(B, p)
         [] c = OBNAME -> ObnameLen(B, p)
         [] c = OBJREF -> ObjrefLen(B, p)
         [] c = ATTREF -> AttrefLen(B, p)
         [] OTHER -> -1

(* total length of n consecutive values of code c at p (-1: truncated)     *)
RECURSIVE ValuesLenVar(_, _, _, _, _)
ValuesLenVar(c, B, p, n, acc) ==
  IF n = 0 THEN acc
  ELSE LET l == OneLen(c, B, p) IN IF l < 0 THEN -1 ELSE ValuesLenVar(c, B, p + l, n - 1, acc + l)

ValuesLen(c, B, p, n) ==
  LET f == FixedSize(c) IN
  IF n = 0 THEN 0
  ELSE IF f > 0 THEN (IF Fits(B, p, f * n) THEN f * n ELSE -1)
  ELSE ValuesLenVar(c, B, p, n, 0)

(* start positions of the n values (for later decoding)                    *)
RECURSIVE ValueStarts(_, _, _, _, _)
ValueStarts(c, B, p, n, acc) ==
  IF n = 0 THEN acc ELSE ValueStarts(c, B, p + OneLen(c, B, p), n - 1, Append(acc, p))

(* ---- one attribute component at p; dflt = inherited characteristics ----- *)
(* returns [ok, next, a (attribute record), bad]                           *)
DefaultAttr == [label |-> << >>, count |-> 1, code |-> IDENT, units |-> << >>, hasValue |-> FALSE,
                absent |-> FALSE, pos |-> 0, len |-> 0, hasLabel |-> FALSE]

AttrComponent(B, p, dflt, inObj) ==
  LET d    == B[p]
      hasL == FBit(d, 16)  hasC == FBit(d, 8)  hasR == FBit(d, 4)  hasU == FBit(d, 2)  hasV == FBit(d, 1)
      p1   == p + 1
      lab  == IF hasL THEN DecIdent(B, p1) ELSE [ok |-> TRUE, s |-> dflt.label, n |-> 0]
      p2   == p1 + lab.n
      cnt  == IF hasC /\ lab.ok THEN DecUvari(B, p2) ELSE [ok |-> lab.ok, v |-> dflt.count, n |-> 0]
      p3   == p2 + cnt.n
      okR  == cnt.ok /\ (~hasR \/ Fits(B, p3, 1))
      code == IF hasR /\ okR THEN B[p3] ELSE dflt.code
      p4   == p3 + (IF hasR THEN 1 ELSE 0)
      uni  == IF hasU /\ okR THEN DecIdent(B, p4) ELSE [ok |-> okR, s |-> dflt.units, n |-> 0]
      p5   == p4 + uni.n
      cdef == code \in DefinedCodes
      vlen == IF hasV /\ uni.ok /\ cdef THEN ValuesLen(code, B, p5, cnt.v) ELSE 0
      ok   == lab.ok /\ cnt.ok /\ okR /\ uni.ok /\ vlen >= 0
      bad  == (IF ~ok THEN {"C04.Truncated"} ELSE {})
         \cup (IF okR /\ ~cdef THEN {"C04.ReprCodeDefined"} ELSE {})
         \cup (IF ok /\ hasV /\ cnt.v = 0 THEN {"C04.ValueCount"} ELSE {})
         \* an attribute component of an object carries as many values as its count says (nothing: absent-attribute component)
         \cup (IF ok /\ inObj /\ ~hasV /\ ~dflt.hasValue /\ cnt.v # 0 THEN {"C04.ValueCount"} ELSE {})
  IN [ok |-> ok /\ cdef, next |-> p5 + (IF vlen > 0 THEN vlen ELSE 0), bad |-> bad,
      a |-> [label |-> lab.s, count |-> cnt.v, code |-> code, units |-> uni.s,
             hasValue |-> hasV \/ dflt.hasValue,
             absent |-> FALSE,
             pos |-> IF hasV THEN p5 ELSE dflt.pos,
             len |-> IF hasV THEN (IF vlen > 0 THEN vlen ELSE 0) ELSE dflt.len,
             hasLabel |-> hasL]]

(* ---- template: attribute components up to the first OBJECT component ---- *)
RECURSIVE TemplateLoop(_, _, _, _)
TemplateLoop(B, p, acc, bad) ==
  IF p > Len(B) THEN [next |-> p, tmpl |-> acc, bad |-> bad, fatal |-> FALSE]
  ELSE LET r == Role(B[p]) IN
    IF r = OBJECT THEN [next |-> p, tmpl |-> acc, bad |-> bad, fatal |-> FALSE]
    ELSE IF r \notin {ATTRIB, INVATR} THEN [next |-> p, tmpl |-> acc, bad |-> bad \cup {"C04.ComponentRole"}, fatal |-> TRUE]
    ELSE LET c == AttrComponent(B, p, DefaultAttr, FALSE) IN
      IF ~c.ok THEN [next |-> p, tmpl |-> acc, bad |-> bad \cup c.bad, fatal |-> TRUE]
      ELSE TemplateLoop(B, c.next, Append(acc, c.a),
                        bad \cup c.bad \cup (IF c.a.label = << >> THEN {"C04.TemplateLabelNonEmpty"} ELSE {}))

(* ---- attributes of one object: up to the next OBJECT component or end --- *)
RECURSIVE ObjAttrLoop(_, _, _, _, _)
ObjAttrLoop(B, p, tmpl, acc, bad) ==
  IF p > Len(B) THEN [next |-> p, attrs |-> acc, bad |-> bad, fatal |-> FALSE]
  ELSE LET r == Role(B[p])  k == Len(acc) + 1 IN
    IF r = OBJECT THEN [next |-> p, attrs |-> acc, bad |-> bad, fatal |-> FALSE]
    ELSE IF r \notin {ABSATR, ATTRIB} THEN [next |-> p, attrs |-> acc, bad |-> bad \cup {"C04.ComponentRole"}, fatal |-> TRUE]
    ELSE IF k > Len(tmpl) THEN [next |-> p, attrs |-> acc, bad |-> bad \cup {"C04.AttrWithinTemplate"}, fatal |-> TRUE]
    ELSE IF r = ABSATR THEN
      ObjAttrLoop(B, p + 1, tmpl, Append(acc, [DefaultAttr EXCEPT !.absent = TRUE, !.label = tmpl[k].label]),
                  bad \cup (IF B[p] % 32 # 0 THEN {"C04.ComponentRole"} ELSE {}))
    ELSE LET c == AttrComponent(B, p, tmpl[k], TRUE) IN
      IF ~c.ok THEN [next |-> p, attrs |-> acc, bad |-> bad \cup c.bad, fatal |-> TRUE]
      ELSE ObjAttrLoop(B, c.next, tmpl, Append(acc, c.a),
                       bad \cup c.bad \cup (IF c.a.hasLabel THEN {"C04.AttrLabelInObject"} ELSE {}))

RECURSIVE ObjectLoop(_, _, _, _, _)
ObjectLoop(B, p, tmpl, acc, bad) ==
  IF p > Len(B) THEN [objs |-> acc, bad |-> bad]
  ELSE LET d == B[p] IN
    IF Role(d) # OBJECT \/ ~FBit(d, 16) THEN [objs |-> acc, bad |-> bad \cup {"C04.ObjectComponent"}]
    ELSE LET o == DecObname(B, p + 1) IN
      IF ~o.ok THEN [objs |-> acc, bad |-> bad \cup {"C04.Truncated"}]
      ELSE LET a == ObjAttrLoop(B, p + 1 + o.n, tmpl, << >>, {})
               obj == [origin |-> o.origin, copy |-> o.copy, name |-> o.name, attrs |-> a.attrs]
           IN IF a.fatal THEN [objs |-> Append(acc, obj), bad |-> bad \cup a.bad]
              ELSE ObjectLoop(B, a.next, tmpl, Append(acc, obj), bad \cup a.bad)

NoSet == [type |-> << >>, name |-> << >>, hasName |-> FALSE]

DecodeEflr(B) ==
  IF Len(B) = 0 THEN [set |-> NoSet, tmpl |-> << >>, objs |-> << >>, bad |-> {"C04.SetComponent"}]
  ELSE
  LET d    == B[1]
      isSet == Role(d) \in {SETC, RSET, RDSET}
      hasT == FBit(d, 16)   hasN == FBit(d, 8)
      ty   == IF isSet /\ hasT THEN DecIdent(B, 2) ELSE [ok |-> FALSE, s |-> << >>, n |-> 0]
      nm   == IF ty.ok /\ hasN THEN DecIdent(B, 2 + ty.n) ELSE [ok |-> ty.ok, s |-> << >>, n |-> 0]
  IN IF ~isSet \/ ~hasT \/ ~ty.ok \/ ~nm.ok \/ ty.s = << >>
     THEN [set |-> NoSet, tmpl |-> << >>, objs |-> << >>, bad |-> {"C04.SetComponent"}]
     ELSE LET t == TemplateLoop(B, 2 + ty.n + nm.n, << >>, {})
              labels == { t.tmpl[i].label : i \in DOMAIN t.tmpl }
              dupBad == IF Cardinality(labels) # Len(t.tmpl) THEN {"C04.TemplateLabelUnique"} ELSE {}
              st == [type |-> ty.s, name |-> nm.s, hasName |-> hasN]
          IN IF t.fatal THEN [set |-> st, tmpl |-> t.tmpl, objs |-> << >>, bad |-> t.bad \cup dupBad]
             ELSE LET o == ObjectLoop(B, t.next, t.tmpl, << >>, {})
                  IN [set |-> st, tmpl |-> t.tmpl, objs |-> o.objs, bad |-> t.bad \cup dupBad \cup o.bad]

(* ---- decoding located values ------------------------------------------- *)
(* One value of code c at p as an abstract value:                          *)
(*   [k |-> "int", v |-> limbs] | [k |-> "bits", code, b |-> bytes]       *)
(*   [k |-> "str", s] | [k |-> "dt", ...] | [k |-> "ref", type, origin, copy, name] *)
DecodeValue(c, B, p) ==
  CASE c \in IntCodes \cup {STATUS} -> [k |-> "int", v |-> DecInt(c, B, p).v]
    [] c \in {IDENT, UNITS}  -> [k |-> "str", s |-> DecIdent(B, p).s]
    [] c = ASCII  -> [k |-> "str", s |-> DecAscii(B, p).s]
    [] c = DTIME  -> LET t == DecDtime(B, p) IN
                       [k |-> "dt", y |-> t.y, tz |-> t.tz, mo |-> t.mo, d |-> t.d, h |-> t.h, mi |-> t.mi, s |-> t.s, ms |-> t.ms]
    [] c = OBNAME -> LET o == DecObname(B, p) IN
                       [k |-> "ref", typed |-> FALSE, type |-> << >>, origin |-> o.origin, copy |-> o.copy, name |-> o.name]
    [] c = OBJREF -> LET o == DecObjref(B, p) IN
                       [k |-> "ref", typed |-> TRUE, type |-> o.type, origin |-> o.origin, copy |-> o.copy, name |-> o.name]
    [] OTHER -> [k |-> "bits", code |-> c, b |-> SubSeq(B, p, p + FixedSize(c) - 1)]

AttrValues(B, a) ==     \* sequence of abstract values of a decoded attribute (<< >> when no value)
  IF a.absent \/ a.len = 0 THEN << >>
  ELSE LET starts == ValueStarts(a.code, B, a.pos, a.count, << >>) IN
       [i \in 1..a.count |-> DecodeValue(a.code, B, starts[i])]

=====================================================================================
