SPECIFICATION Spec
CONSTANTS
  Typed = TRUE
  BypassFloat = TRUE
  BypassDtime = TRUE
  BypassRef = TRUE
  Invalidate = TRUE
  MarkDerived = TRUE
  KeepData = FALSE
  MaxOps = 5
INVARIANT HistoryIndependent
CHECK_DEADLOCK FALSE
