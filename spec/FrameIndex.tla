--------------------------------- MODULE FrameIndex ---------------------------------
(***************************************************************************)
(* Implementation-shaped model of FrameItem._setup_frame_params_from_data: *)
(* the index attributes INDEX-MIN, INDEX-MAX, SPACING, DIRECTION of a      *)
(* frame across a sequence of writes of the same DLISFile.                 *)
(*                                                                         *)
(*   slot value  [set, v, user]  (set = FALSE: the attribute is None)       *)
(*   assign_if_none    fills an empty slot from the data and remembers     *)
(*                     that the frame derived it itself                    *)
(*   at the start of every write derived slots are emptied again           *)
(*   SetUser           the user assigns a slot (at creation or later)      *)
(*                                                                         *)
(* Index data are sequences over a small integer domain; differences are   *)
(* taken in unbounded integers (np.int64 after the fix), Wrap = 0.  With   *)
(* Wrap = M the model reproduces the np.diff wrap-around of unsigned       *)
(* dtypes (used by the selftest to show that the invariant catches it).    *)
(***************************************************************************)
EXTENDS Naturals, Integers, Sequences, FiniteSets, TLC

CONSTANTS Vals, MaxLen, MaxWrites, Wrap, UserVals, LateNames

VARIABLES
  indexed,   \* the frame has an index type
  slots,     \* [min, max, spacing, direction] -> "none" | [v, user]
  data,      \* index data of the current write ( << >> before the first )
  nwrites,
  last,      \* what the last write emitted: [min, max, spacing, direction]
  fresh,     \* the last step was a write (the obligations are stated at that moment)
  ub         \* the values the user had assigned when the last write started

vars == << indexed, slots, data, nwrites, last, fresh, ub >>

Names == {"min", "max", "spacing", "direction"}
NoSlot == [set |-> FALSE, v |-> 0, user |-> FALSE]
Slot(x, u) == [set |-> TRUE, v |-> x, user |-> u]
INCREASING == 101
DECREASING == 102
NoVal == [has |-> FALSE, v |-> 0]
Val(x) == [has |-> TRUE, v |-> x]

Seqs == UNION { [1..n -> Vals] : n \in 1..MaxLen }

Min(S) == CHOOSE x \in S : \A y \in S : x <= y
Max(S) == CHOOSE x \in S : \A y \in S : x >= y
Diffs(d) == [k \in 1..(Len(d) - 1) |-> IF Wrap = 0 THEN d[k + 1] - d[k] ELSE (d[k + 1] - d[k] + Wrap) % Wrap]

(* the lower median of a sequence of integers (np.median differs for even lengths only by averaging the two middle *)
(* values; the tolerance test below then sees the same verdict for the two-valued cases of this model)            *)
Median(ds) ==
  LET n == Len(ds)
      rank(k) == Cardinality({ j \in 1..n : ds[j] < ds[k] \/ (ds[j] = ds[k] /\ j < k) }) + 1
      mid == (n + 1) \div 2
  IN ds[CHOOSE k \in 1..n : rank(k) = mid]

(* _compute_spacing_and_direction                                          *)
SpacingDirection(d) ==
  IF Len(d) < 2 THEN [spacing |-> NoVal, direction |-> NoVal]
  ELSE
  LET ds == Diffs(d)
      S  == { ds[k] : k \in DOMAIN ds }
      dir == IF S = {0} THEN NoVal
             ELSE IF \A x \in S : x >= 0 THEN Val(INCREASING)
             ELSE IF \A x \in S : x <= 0 THEN Val(DECREASING) ELSE NoVal
  IN IF Cardinality(S) = 1 THEN [spacing |-> Val(CHOOSE x \in S : TRUE), direction |-> dir]
     ELSE LET m == Median(ds) IN
       IF m = 0 THEN [spacing |-> NoVal, direction |-> dir]
       ELSE IF \A x \in S : 1000 * (m - x) * (m - x) < m * m THEN [spacing |-> Val(m), direction |-> dir]
       ELSE [spacing |-> NoVal, direction |-> dir]

Init ==
  /\ indexed \in BOOLEAN
  /\ slots \in [Names -> {NoSlot} \cup { Slot(x, TRUE) : x \in UserVals }]
  /\ data = << >> /\ nwrites = 0
  /\ last = [n \in Names |-> NoVal] /\ fresh = FALSE /\ ub = [n \in Names |-> NoVal]

SetUser(n, x) ==
  /\ nwrites < MaxWrites /\ nwrites >= 1 /\ fresh          \* the user changes one value between two writes
  /\ slots' = [slots EXCEPT ![n] = Slot(x, TRUE)]
  /\ fresh' = FALSE
  /\ UNCHANGED << indexed, data, nwrites, last, ub >>

AssignIfNone(s, n, x) == IF ~s[n].set /\ x.has THEN [s EXCEPT ![n] = Slot(x.v, FALSE)] ELSE s

Write(d) ==
  /\ nwrites < MaxWrites
  /\ LET s0 == [n \in Names |-> IF slots[n].set /\ ~slots[n].user THEN NoSlot ELSE slots[n]]     \* derived values are forgotten
         sd == SpacingDirection(d)
         s1 == IF ~indexed
               THEN AssignIfNone(AssignIfNone(AssignIfNone(s0, "spacing", Val(1)), "min", Val(1)), "max", Val(Len(d)))
               ELSE LET a == AssignIfNone(AssignIfNone(s0, "min", Val(Min({ d[k] : k \in DOMAIN d }))), "max", Val(Max({ d[k] : k \in DOMAIN d })))
                    IN IF ~sd.spacing.has
                       THEN AssignIfNone(a, "direction", sd.direction)
                       ELSE AssignIfNone(a, "spacing", sd.spacing)
     IN /\ slots' = s1
        /\ last' = [n \in Names |-> IF s1[n].set THEN Val(s1[n].v) ELSE NoVal]
  /\ data' = d /\ nwrites' = nwrites + 1 /\ fresh' = TRUE
  /\ ub' = [n \in Names |-> IF slots[n].set /\ slots[n].user THEN Val(slots[n].v) ELSE NoVal]
  /\ UNCHANGED indexed

Next == (\E n \in LateNames, x \in {0, 7} : SetUser(n, x)) \/ (\E d \in Seqs : Write(d))
Spec == Init /\ [][Next]_vars

(* ======================= obligations (C13) =============================== *)
UserVal(n) == slots[n].set /\ slots[n].user
Written == fresh /\ nwrites > 0 /\ data # << >>
DS == { data[k] : k \in DOMAIN data }

(* any value supplied by the user is written unchanged (also falsy ones like 0) *)
UserValueKept == Written => \A n \in Names : (ub[n].has => last[n] = ub[n]) /\ (UserVal(n) <=> ub[n].has)

IndexBounds ==
  (Written /\ indexed) => /\ (~UserVal("min") => last["min"] = Val(Min(DS)))
                          /\ (~UserVal("max") => last["max"] = Val(Max(DS)))

RowNumberBounds ==
  (Written /\ ~indexed) => /\ (~UserVal("min") => last["min"] = Val(1))
                           /\ (~UserVal("max") => last["max"] = Val(Len(data)))

(* SPACING (derived) only if the differences of the rows written NOW are uniform within tolerance, and then it lies among them *)
SpacingTruthful ==
  (Written /\ indexed /\ ~UserVal("spacing") /\ last["spacing"].has /\ Len(data) >= 2) =>
     LET s == last["spacing"].v
         ds == [k \in 1..(Len(data) - 1) |-> data[k + 1] - data[k]]
     IN /\ \A k \in DOMAIN ds : IF s = 0 THEN ds[k] = 0 ELSE 1000 * (s - ds[k]) * (s - ds[k]) < s * s
        /\ (\E k \in DOMAIN ds : ds[k] <= s) /\ (\E k \in DOMAIN ds : ds[k] >= s)

(* otherwise DIRECTION reflects the monotonic sense, if there is one        *)
DirectionTruthful ==
  (Written /\ indexed /\ ~UserVal("spacing") /\ ~UserVal("direction") /\ ~last["spacing"].has /\ Len(data) >= 2) =>
     LET ds == [k \in 1..(Len(data) - 1) |-> data[k + 1] - data[k]] IN
       /\ ((\A k \in DOMAIN ds : ds[k] > 0) => last["direction"] = Val(INCREASING))
       /\ ((\A k \in DOMAIN ds : ds[k] < 0) => last["direction"] = Val(DECREASING))
=====================================================================================
