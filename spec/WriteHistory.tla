--------------------------------- MODULE WriteHistory ---------------------------------
(***************************************************************************)
(* Implementation-shaped model of everything a DLISFile remembers from one *)
(* write() to the next, over histories of assignments and writes (C14; the *)
(* rejected assignment of C20; the derived values of C03/C05/C13).         *)
(*                                                                         *)
(* The file has a fixed skeleton (two origins, INDEX and VAL channels in   *)
(* one indexed frame, a zone referenced by a parameter and a group, a      *)
(* comment); the history changes                                           *)
(*   pval     the parameter value (Python objects with Python's equality)  *)
(*   zname, zorig   name / origin reference of the zone                    *)
(*   ucast    the dtype the user pinned for VAL ("" = none)                *)
(*   ubounds  INDEX-MIN/MAX the user pinned ("none" = none)                *)
(*   tlen     number of texts of the comment (assigned or grown in place)  *)
(* and writes data of some dtype / index content / row window.             *)
(*                                                                         *)
(* `want` is what a fresh process writes for the current specification and *)
(* the data of this write; `out` is what this process writes, computed     *)
(* from the state the implementation keeps:                                *)
(*   vcache   write_struct lru cache (typed keys, floats bypass it)        *)
(*   obcache / refcache   OBNAME cached per item, OBJREF not cached        *)
(*   cast     ChannelItem._cast_dtype with its derived-from-data flag      *)
(*   bounds   FrameItem index attributes with the record of what the last  *)
(*            write derived (recognised by identity at the next write)     *)
(*   pcode    a remembered representation code (none on this tree)         *)
(*   tcnt     a remembered value count (none on this tree)                 *)
(* The boolean constants select the behaviour; the configuration gives the *)
(* values of the current tree.  Any other value reproduces a historical or *)
(* seeded defect and makes HistoryIndependent fail (selftest).             *)
(*                                                                         *)
(* `hist` records the calls with the model's projection after every write; *)
(* TLC-generated histories are replayed on the real objects                *)
(* (harness/histreplay.py), the projection is compared (MODEL-DRIFT) and   *)
(* the files are judged by TraceDlis (C14.HistoryIndependent against a     *)
(* fresh process that builds the final specification directly).            *)
(***************************************************************************)
EXTENDS Naturals, Sequences, FiniteSets, TLC

CONSTANTS
  MaxOps,
  ValSet, DataSet, WinSet, PinSet, CastSet,     \* alphabets
  Typed, BypassFloat, BypassRef, Invalidate,    \* caches (cf. CacheModel)
  MarkDerived, FlagAfterValidation, SameCastShortcut,
  DerivedByIdentity, GuessEachTime, CountLive, LabelLive, PayloadLive, FileIdFollowsHeader, DimFollowsData

VARIABLES pval, fval, zname, zorig, ucast, ubounds, tlen, vrl, pay, hid,
          vcache, obcache, refcache, cast, bounds, pcode, tcnt, wvrl, wpay, ofid, dimw,
          out, want, hist

spec  == << pval, fval, zname, zorig, ucast, ubounds, tlen, vrl, pay, hid >>
impl  == << vcache, obcache, refcache, cast, bounds, pcode, tcnt, wvrl, wpay, ofid, dimw >>
vars  == << pval, fval, zname, zorig, ucast, ubounds, tlen, vrl, pay, vcache, obcache, refcache, cast, bounds, pcode, tcnt, wvrl, wpay, ofid, dimw, hid, out, want, hist >>
noHist == << pval, fval, zname, zorig, ucast, ubounds, tlen, vrl, pay, vcache, obcache, refcache, cast, bounds, pcode, tcnt, wvrl, wpay, ofid, dimw, hid, out, want, Len(hist) >>

(* ---- Python values: [t, v]; 1 == 1.0 == True, 0 == 0.0 == -0.0 ("nz") ---- *)
AllVals == { [t |-> "int", v |-> "1"], [t |-> "float", v |-> "1"], [t |-> "bool", v |-> "1"], [t |-> "str", v |-> "1"],
             [t |-> "int", v |-> "0"], [t |-> "float", v |-> "0"], [t |-> "float", v |-> "nz"] }
ValOf(k) == CHOOSE x \in AllVals : << x.t, x.v >> = k
PyKey(x) == IF x.t = "str" THEN "'1'" ELSE IF x.v = "nz" THEN "0" ELSE x.v      \* '1' != 1 == 1.0 == True; 0.0 == -0.0
Guess(x) == IF x.t = "str" THEN "ASCII" ELSE IF x.t = "float" THEN "FDOUBL" ELSE "SLONG"     \* bool is an int to the guess
Enc(c, x) == IF c \in {"ASCII", "IDENT"} THEN << "text", x.t, x.v >>        \* str(value)
             ELSE IF x.t = "str" THEN << "raises" >>                      \* struct.pack of a str
             ELSE IF c = "SLONG" THEN (IF x.t = "float" THEN << "raises" >> ELSE << "i4", PyKey(x) >>)
             ELSE << "f8", x.v >>
Key(c, x) == IF Typed THEN << c, x.t, PyKey(x) >> ELSE << c, PyKey(x) >>
Cached(c, x) == { e \in vcache : e.key = Key(c, x) }
Bypass(c, x) == BypassFloat /\ x.t = "float"                              \* numbers that are not Integral are not cached
WriteStruct(c, x) == IF Bypass(c, x) \/ Cached(c, x) = {} THEN Enc(c, x) ELSE (CHOOSE e \in Cached(c, x) : TRUE).bytes
CacheAfter(c, x) == IF Bypass(c, x) \/ Cached(c, x) # {} \/ Enc(c, x) = << "raises" >> THEN vcache
                    ELSE vcache \cup {[key |-> Key(c, x), bytes |-> Enc(c, x)]}

Names == {"ZA", "ZB"}
Origins == {5, 9}
NoCast == [dt |-> "", derived |-> FALSE]
None == << "none", "none" >>
NoBounds == [v |-> None, rec |-> None, same |-> FALSE]
(* index bounds are symbolic: << content, window >>; NaN is not equal to itself *)
Derive(d, w) == << d.ix, w >>
ValEqual(a, b) == a = b /\ a[1] # "N"

Init ==
  /\ pval = ValOf(<< "int", "1" >>) /\ fval = ValOf(<< "str", "1" >>) /\ zname = "ZA" /\ zorig = 0 /\ ucast = "" /\ ubounds = None /\ tlen = 1
  /\ vcache = {} /\ obcache = << >> /\ refcache = << >> /\ cast = NoCast /\ bounds = NoBounds /\ pcode = "" /\ tcnt = 1
  /\ vrl = 256 /\ pay = "P0" /\ wvrl = 256 /\ wpay = "P0" /\ hid = "H1" /\ ofid = "H1" /\ dimw = 0
  /\ out = << >> /\ want = << >> /\ hist = << >>

Log(op) == hist' = Append(hist, op)
Can == Len(hist) < MaxOps

SetVal(k) ==
  /\ Can /\ pval' = ValOf(k) /\ Log([k |-> "set_val", t |-> k[1], v |-> k[2]])
  /\ UNCHANGED << fval, zname, zorig, ucast, ubounds, tlen, vcache, obcache, refcache, cast, bounds, pcode, tcnt, out, want, vrl, pay, wvrl, wpay, hid, ofid, dimw >>

SetFt(k) ==      \* origin.file_type: an IDENT attribute that takes any Python value (written as str(value))
  /\ Can /\ fval' = ValOf(k) /\ Log([k |-> "set_ft", t |-> k[1], v |-> k[2]])
  /\ UNCHANGED << pval, zname, zorig, ucast, ubounds, tlen, vcache, obcache, refcache, cast, bounds, pcode, tcnt, out, want, vrl, pay, wvrl, wpay, hid, ofid, dimw >>

Rename(n) ==
  /\ Can /\ zname' = n /\ obcache' = (IF Invalidate THEN << >> ELSE obcache) /\ Log([k |-> "rename", name |-> n])
  /\ UNCHANGED << pval, fval, zorig, ucast, ubounds, tlen, vcache, refcache, cast, bounds, pcode, tcnt, out, want, vrl, pay, wvrl, wpay, hid, ofid, dimw >>

SetOrigin(o) ==
  /\ Can /\ zorig' = o /\ obcache' = (IF Invalidate THEN << >> ELSE obcache) /\ Log([k |-> "set_origin", ref |-> o])
  /\ UNCHANGED << pval, fval, zname, ucast, ubounds, tlen, vcache, refcache, cast, bounds, pcode, tcnt, out, want, vrl, pay, wvrl, wpay, hid, ofid, dimw >>

PinCast(dt) ==
  /\ Can /\ ucast' = dt
  /\ cast' = IF SameCastShortcut /\ cast.dt = dt THEN cast ELSE [dt |-> dt, derived |-> FALSE]
  /\ Log([k |-> "pin_cast", dt |-> dt])
  /\ UNCHANGED << pval, fval, zname, zorig, ubounds, tlen, vcache, obcache, refcache, bounds, pcode, tcnt, out, want, vrl, pay, wvrl, wpay, hid, ofid, dimw >>

ClearCast ==
  /\ Can /\ ucast' = "" /\ cast' = NoCast /\ Log([k |-> "clear_cast"])
  /\ UNCHANGED << pval, fval, zname, zorig, ubounds, tlen, vcache, obcache, refcache, bounds, pcode, tcnt, out, want, vrl, pay, wvrl, wpay, hid, ofid, dimw >>

(* an assignment the setter refuses (an unsupported dtype): nothing may change *)
RejectCast ==
  /\ Can /\ cast' = IF FlagAfterValidation THEN cast ELSE [cast EXCEPT !.derived = FALSE]
  /\ Log([k |-> "reject_cast"])
  /\ UNCHANGED << pval, fval, zname, zorig, ucast, ubounds, tlen, vcache, obcache, refcache, bounds, pcode, tcnt, out, want, vrl, pay, wvrl, wpay, hid, ofid, dimw >>

PinBounds(b) ==
  /\ Can /\ ubounds' = b /\ bounds' = [v |-> b, rec |-> bounds.rec, same |-> FALSE]
  /\ Log([k |-> "pin_bounds", ix |-> b[1], w |-> b[2]])
  /\ UNCHANGED << pval, fval, zname, zorig, ucast, tlen, vcache, obcache, refcache, cast, pcode, tcnt, out, want, vrl, pay, wvrl, wpay, hid, ofid, dimw >>

Extend ==       \* comment.text.value.append(...): the list the attribute handed out grows in place
  /\ Can /\ tlen < 3 /\ tlen' = tlen + 1 /\ tcnt' = (IF CountLive THEN tlen + 1 ELSE tcnt) /\ Log([k |-> "extend"])
  /\ UNCHANGED << pval, fval, zname, zorig, ucast, ubounds, vcache, obcache, refcache, cast, bounds, pcode, out, want, vrl, pay, wvrl, wpay, hid, ofid, dimw >>

SetText(n) ==
  /\ Can /\ tlen' = n /\ tcnt' = n /\ Log([k |-> "set_text", n |-> n])
  /\ UNCHANGED << pval, fval, zname, zorig, ucast, ubounds, vcache, obcache, refcache, cast, bounds, pcode, out, want, vrl, pay, wvrl, wpay, hid, ofid, dimw >>

Relabel(v) ==     \* df.storage_unit_label.max_record_length = v: the next file is framed for v
  /\ Can /\ vrl' = v /\ wvrl' = (IF LabelLive THEN v ELSE wvrl) /\ Log([k |-> "relabel", vrl |-> v])
  /\ UNCHANGED << pval, fval, zname, zorig, ucast, ubounds, tlen, pay, vcache, obcache, refcache, cast, bounds, pcode, tcnt, wpay, out, want, hid, ofid, dimw >>

Replace(q) ==     \* record.data = q for the no-format record
  /\ Can /\ pay' = q /\ wpay' = (IF PayloadLive THEN q ELSE wpay) /\ Log([k |-> "replace", pay |-> q])
  /\ UNCHANGED << pval, fval, zname, zorig, ucast, ubounds, tlen, vrl, vcache, obcache, refcache, cast, bounds, pcode, tcnt, wvrl, out, want, hid, ofid, dimw >>

SetHeaderId(h) ==   \* lf.file_header.header_id = h; the defining origin's FILE-ID was taken from the header when the origin was added
  /\ Can /\ hid' = h /\ Log([k |-> "set_header", id |-> h])
  /\ UNCHANGED << pval, fval, zname, zorig, ucast, ubounds, tlen, vrl, pay, vcache, obcache, refcache, cast, bounds, pcode, tcnt, wvrl, wpay, ofid, dimw, out, want >>

Write(d, w) ==
  /\ Can
  /\ LET \* --- the parameter value
         code == IF GuessEachTime \/ pcode = "" THEN Guess(pval) ELSE pcode
         \* --- names and references
         ob   == IF obcache = << >> THEN << zname, zorig >> ELSE obcache
         ref  == IF BypassRef \/ refcache = << >> THEN ob ELSE refcache
         \* --- the dtype VAL is written in
         eff  == IF cast.dt # "" /\ ~(MarkDerived /\ cast.derived) THEN cast.dt ELSE d.dt
         \* --- index bounds: forget what the previous write derived, then derive what is missing
         wasDerived == bounds.rec # None /\ (IF DerivedByIdentity THEN bounds.same ELSE ValEqual(bounds.v, bounds.rec))
         b1   == IF wasDerived THEN None ELSE bounds.v
         b2   == IF b1 = None THEN [v |-> Derive(d, w), rec |-> Derive(d, w), same |-> TRUE]
                 ELSE [v |-> b1, rec |-> None, same |-> FALSE]
         cnt  == IF CountLive THEN tlen ELSE tcnt
         c1   == CacheAfter(code, pval)
         ftb  == LET hit == { e \in c1 : e.key = Key("IDENT", fval) } IN
                 IF Bypass("IDENT", fval) \/ hit = {} THEN Enc("IDENT", fval) ELSE (CHOOSE e \in hit : TRUE).bytes
         fidw == IF FileIdFollowsHeader THEN hid ELSE ofid          \* FILE-ID written (a mismatch with the header ID is refused)
         \* DIMENSION of VAL: derived from the data of every write (dimw: what an earlier write left behind, 0 = nothing)
         dimBad == ~DimFollowsData /\ dimw # 0 /\ dimw # d.wd     \* "Previously defined dimension does not match the dimension from data"
     IN /\ dimw' = IF dimBad THEN dimw ELSE d.wd
        /\ out'  = IF fidw # hid \/ dimBad THEN << "raises" >> ELSE << WriteStruct(code, pval), ftb, ob, ref, eff, b2.v, cnt, wvrl, wpay, fidw, d.wd >>
        /\ want' = << Enc(Guess(pval), pval), Enc("IDENT", fval), << zname, zorig >>, << zname, zorig >>, IF ucast # "" THEN ucast ELSE d.dt,
                      IF ubounds # None THEN ubounds ELSE Derive(d, w), tlen, vrl, pay, hid, d.wd >>
        /\ vcache' = IF Bypass("IDENT", fval) \/ \E e \in c1 : e.key = Key("IDENT", fval) THEN c1
                      ELSE c1 \cup {[key |-> Key("IDENT", fval), bytes |-> Enc("IDENT", fval)]}
        /\ obcache' = ob
        /\ refcache' = IF BypassRef THEN refcache ELSE ref
        /\ cast' = IF cast.dt # "" /\ ~(MarkDerived /\ cast.derived) THEN cast ELSE [dt |-> d.dt, derived |-> TRUE]
        /\ bounds' = b2
        /\ pcode' = code
        /\ ofid' = fidw
        /\ Log([k |-> "write", dt |-> d.dt, ix |-> d.ix, wd |-> d.wd, w |-> w, proj |-> [dt |-> eff, bix |-> b2.v[1], bw |-> b2.v[2], cnt |-> cnt]])
  /\ UNCHANGED << pval, fval, zname, zorig, ucast, ubounds, tlen, tcnt, vrl, pay, wvrl, wpay, hid >>

Next == (\E k \in ValSet : SetVal(k)) \/ (\E k \in ValSet : SetFt(k)) \/ (\E n \in Names : Rename(n)) \/ (\E o \in Origins : SetOrigin(o))
        \/ (\E dt \in CastSet : PinCast(dt)) \/ ClearCast \/ RejectCast \/ (\E b \in PinSet : PinBounds(b))
        \/ Extend \/ (\E n \in {1, 2} : SetText(n)) \/ (\E v \in {64, 256} : Relabel(v)) \/ (\E q \in {"P0", "P1"} : Replace(q)) \/ (\E h \in {"H1", "H2"} : SetHeaderId(h)) \/ (\E d \in DataSet, w \in WinSet : Write(d, w))
Spec == Init /\ [][Next]_vars

(* C14: what is written equals what a fresh process writes for the current specification and data *)
HistoryIndependent == out = want
(* C20: a refused assignment changes nothing the implementation keeps *)
RejectedIsNoOp == [][ (hist' # hist /\ hist'[Len(hist')].k = "reject_cast") => UNCHANGED impl ]_vars
(* the implementation state that is a pure function of the specification stays so *)
NoStaleCount == tcnt = tlen

(* alphabets for the configurations (a .cfg file cannot spell tuples and records) *)
KAll   == { << x.t, x.v >> : x \in AllVals }
KSmall == { << "int", "1" >>, << "bool", "1" >>, << "str", "1" >>, << "float", "nz" >> }
DAll   == { [dt |-> "f4", ix |-> "A", wd |-> 1], [dt |-> "f8", ix |-> "A", wd |-> 1], [dt |-> "f8", ix |-> "N", wd |-> 1],
             [dt |-> "f8", ix |-> "B", wd |-> 1], [dt |-> "f8", ix |-> "V", wd |-> 1], [dt |-> "f8", ix |-> "A", wd |-> 2] }          \* A, B evenly spaced; V unevenly spaced (DIRECTION instead of SPACING); N holds a NaN
DSmall == { [dt |-> "f4", ix |-> "A", wd |-> 1], [dt |-> "f8", ix |-> "N", wd |-> 1], [dt |-> "f8", ix |-> "V", wd |-> 2] }
PAll   == { << "A", "all" >>, << "U", "all" >> }
PSmall == { << "A", "all" >> }

(* scenario generation: complete histories that end with a write *)
PrintLeaf == (Len(hist) = MaxOps /\ hist[Len(hist)].k = "write") => PrintT(<< "HIST", hist >>)
=====================================================================================
