--------------------------------- MODULE DlisDecode ---------------------------------
(***************************************************************************)
(* Logical-level reader (normative): turns the sequence of reassembled     *)
(* logical records of a file into a decoded structure and states the       *)
(* clauses that can be judged on the file alone:                           *)
(*   C04 component grammar (via RP66EFLR), C07 identity and references,    *)
(*   C09 mandated order, C18 one header per logical file.                  *)
(* Clauses that need the user's specification are in DlisCanon.            *)
(***************************************************************************)
EXTENDS RP66EFLR, RP66Frame, IOUtils, TLC

Dbg(tag, val) == IF "VERIF_DEBUG" \in DOMAIN IOEnv THEN PrintT(<< "DBG", tag, val >>) ELSE TRUE
Flag(c, val) == IF Dbg(c, val) THEN {c} ELSE {}

Str(s) == s     \* byte strings are written as tuples of character codes

sFILEHEADER == << 70, 73, 76, 69, 45, 72, 69, 65, 68, 69, 82 >>
sORIGIN     == << 79, 82, 73, 71, 73, 78 >>
sCHANNEL    == << 67, 72, 65, 78, 78, 69, 76 >>
sFRAME      == << 70, 82, 65, 77, 69 >>
sNOFORMAT   == << 78, 79, 45, 70, 79, 82, 77, 65, 84 >>
sAXIS       == << 65, 88, 73, 83 >>
sZONE       == << 90, 79, 78, 69 >>
sPARAMETER  == << 80, 65, 82, 65, 77, 69, 84, 69, 82 >>
sLONGNAME   == << 76, 79, 78, 71, 45, 78, 65, 77, 69 >>
sEQUIPMENT  == << 69, 81, 85, 73, 80, 77, 69, 78, 84 >>
sCOMPUTATION == << 67, 79, 77, 80, 85, 84, 65, 84, 73, 79, 78 >>
sGROUP      == << 71, 82, 79, 85, 80 >>
sWELLREF    == << 87, 69, 76, 76, 45, 82, 69, 70, 69, 82, 69, 78, 67, 69 >>
sCALCOEF    == << 67, 65, 76, 73, 66, 82, 65, 84, 73, 79, 78, 45, 67, 79, 69, 70, 70, 73, 67, 73, 69, 78, 84 >>
sCALMEAS    == << 67, 65, 76, 73, 66, 82, 65, 84, 73, 79, 78, 45, 77, 69, 65, 83, 85, 82, 69, 77, 69, 78, 84 >>

lCHANNELS   == << 67, 72, 65, 78, 78, 69, 76, 83 >>
lREPCODE    == << 82, 69, 80, 82, 69, 83, 69, 78, 84, 65, 84, 73, 79, 78, 45, 67, 79, 68, 69 >>
lDIMENSION  == << 68, 73, 77, 69, 78, 83, 73, 79, 78 >>
lELEMLIMIT  == << 69, 76, 69, 77, 69, 78, 84, 45, 76, 73, 77, 73, 84 >>
lSEQNUM     == << 83, 69, 81, 85, 69, 78, 67, 69, 45, 78, 85, 77, 66, 69, 82 >>
lID         == << 73, 68 >>
lFILEID     == << 70, 73, 76, 69, 45, 73, 68 >>
lFILESETNUM == << 70, 73, 76, 69, 45, 83, 69, 84, 45, 78, 85, 77, 66, 69, 82 >>
lINDEXTYPE  == << 73, 78, 68, 69, 88, 45, 84, 89, 80, 69 >>
lINDEXMIN   == << 73, 78, 68, 69, 88, 45, 77, 73, 78 >>
lINDEXMAX   == << 73, 78, 68, 69, 88, 45, 77, 65, 88 >>
lSPACING    == << 83, 80, 65, 67, 73, 78, 71 >>
lDIRECTION  == << 68, 73, 82, 69, 67, 84, 73, 79, 78 >>
lAXIS       == << 65, 88, 73, 83 >>
lZONES      == << 90, 79, 78, 69, 83 >>
lLONGNAME   == sLONGNAME
lSOURCE     == << 83, 79, 85, 82, 67, 69 >>
lPARTS      == << 80, 65, 82, 84, 83 >>
lPARAMETERS == << 80, 65, 82, 65, 77, 69, 84, 69, 82, 83 >>
lGROUPLIST  == << 71, 82, 79, 85, 80, 45, 76, 73, 83, 84 >>
lFRAMETYPE  == << 70, 82, 65, 77, 69, 45, 84, 89, 80, 69 >>
lWELLREFPT  == << 87, 69, 76, 76, 45, 82, 69, 70, 69, 82, 69, 78, 67, 69, 45, 80, 79, 73, 78, 84 >>
lVALUE      == << 86, 65, 76, 85, 69 >>
lCOEFFICIENTS == << 67, 79, 69, 70, 70, 73, 67, 73, 69, 78, 84, 83 >>
lMEASUREMENTS == << 77, 69, 65, 83, 85, 82, 69, 77, 69, 78, 84, 83 >>

EndsWith(s, t) == Len(s) >= Len(t) /\ SubSeq(s, Len(s) - Len(t) + 1, Len(s)) = t
sCHANNELSsfx     == << 67, 72, 65, 78, 78, 69, 76, 83 >>                         \* ...CHANNELS
sCHANNELsfx      == << 67, 72, 65, 78, 78, 69, 76 >>                             \* OUTPUT-CHANNEL
sCOMPUTATIONSsfx == << 67, 79, 77, 80, 85, 84, 65, 84, 73, 79, 78, 83 >>         \* ...COMPUTATIONS

(* The set type an untyped reference (OBNAME) under a given label points   *)
(* to, per RP66 V1 ch. 5/6; << >> = open (any type).                       *)
TargetType(setType, label) ==
  CASE label = lAXIS -> sAXIS
    [] label = lZONES -> sZONE
    [] label = lLONGNAME -> sLONGNAME
    [] label = lPARTS -> sEQUIPMENT
    [] label = lPARAMETERS -> sPARAMETER
    [] label = lGROUPLIST -> sGROUP
    [] label = lFRAMETYPE -> sFRAME
    [] label = lWELLREFPT -> sWELLREF
    [] label = lVALUE -> sCHANNEL
    [] label = lCOEFFICIENTS -> sCALCOEF
    [] label = lMEASUREMENTS -> sCALMEAS
    [] EndsWith(label, sCOMPUTATIONSsfx) -> sCOMPUTATION
    [] EndsWith(label, sCHANNELSsfx) \/ EndsWith(label, sCHANNELsfx) -> sCHANNEL
    [] OTHER -> << >>

(* ---------------- one logical record -> decoded summary ----------------- *)
DecodeRecord(rec) ==
  IF rec.eflr THEN
    LET d == DecodeEflr(rec.body)
        B == rec.body
    IN [k |-> "E", type |-> rec.type, st |-> d.set.type, sn |-> d.set.name, hasName |-> d.set.hasName,
        labels |-> [i \in DOMAIN d.tmpl |-> d.tmpl[i].label],
        objs |-> [j \in DOMAIN d.objs |->
                   [origin |-> d.objs[j].origin, copy |-> d.objs[j].copy, name |-> d.objs[j].name,
                    attrs |-> [i \in DOMAIN d.objs[j].attrs |->
                                LET a == d.objs[j].attrs[i] IN
                                  [absent |-> a.absent \/ ~a.hasValue, count |-> a.count, code |-> a.code, units |-> a.units,
                                   vals |-> IF d.bad = {} THEN AttrValues(B, a) ELSE << >>]]]],
        bad |-> d.bad]
  ELSE
    LET B == rec.body
        o == DecObname(B, 1)
    IN IF ~o.ok THEN [k |-> "I", type |-> rec.type, ok |-> FALSE, origin |-> 0, copy |-> 0, name |-> << >>,
                      fno |-> 0, data |-> << >>, bad |-> {"C07.RefResolves"}]
       ELSE IF rec.type = 0 THEN
         LET f == DecUvari(B, 1 + o.n) IN
           [k |-> "I", type |-> 0, ok |-> f.ok, origin |-> o.origin, copy |-> o.copy, name |-> o.name,
            fno |-> f.v, data |-> IF f.ok THEN SubSeq(B, 1 + o.n + f.n, Len(B)) ELSE << >>,
            bad |-> IF f.ok THEN {} ELSE {"C03.FdataNumbering"}]
       ELSE [k |-> "I", type |-> rec.type, ok |-> TRUE, origin |-> o.origin, copy |-> o.copy, name |-> o.name,
             fno |-> 0, data |-> SubSeq(B, 1 + o.n, Len(B)), bad |-> {}]

IsHeader(r) == r.k = "E" /\ r.type = 0 /\ r.st = sFILEHEADER

(* logical files: index ranges [from, to] into dec, one per FILE-HEADER     *)
LfStarts(dec) == SelectSeq([i \in DOMAIN dec |-> i], LAMBDA i : IsHeader(dec[i]))
LfRanges(dec) ==
  LET s == LfStarts(dec) IN
  [k \in DOMAIN s |-> [from |-> s[k], to |-> IF k < Len(s) THEN s[k + 1] - 1 ELSE Len(dec)]]

(* label -> index in a decoded EFLR's template (0 if absent)               *)
LabelIdx(r, label) ==
  LET S == { i \in DOMAIN r.labels : r.labels[i] = label } IN IF S = {} THEN 0 ELSE CHOOSE i \in S : TRUE

AttrOf(r, o, label) ==     \* decoded attribute record or the absent one
  LET i == LabelIdx(r, label) IN
  IF i = 0 \/ i > Len(o.attrs) THEN [absent |-> TRUE, count |-> 0, code |-> 0, units |-> << >>, vals |-> << >>]
  ELSE o.attrs[i]

(* all objects of a logical file: set of [ri, oi, type, origin, copy, name] *)
LfObjects(dec, rg) ==
  UNION { { [ri |-> i, oi |-> j, type |-> dec[i].st, origin |-> dec[i].objs[j].origin,
             copy |-> dec[i].objs[j].copy, name |-> dec[i].objs[j].name] : j \in DOMAIN dec[i].objs }
          : i \in { x \in rg.from..rg.to : dec[x].k = "E" } }

Ident(o) == << o.type, o.origin, o.copy, o.name >>

(* every reference value written in an EFLR of the logical file:           *)
(* set of [ri, setType, label, v]                                          *)
LfRefs(dec, rg) ==
  UNION { UNION { UNION { { [ri |-> i, setType |-> dec[i].st, label |-> dec[i].labels[a], v |-> dec[i].objs[j].attrs[a].vals[n]]
                            : n \in { m \in DOMAIN dec[i].objs[j].attrs[a].vals : dec[i].objs[j].attrs[a].vals[m].k = "ref" } }
                          : a \in { x \in DOMAIN dec[i].objs[j].attrs : x <= Len(dec[i].labels) } }
                  : j \in DOMAIN dec[i].objs }
          : i \in { x \in rg.from..rg.to : dec[x].k = "E" } }

Candidates(objs, ref, setType, label) ==
  LET tt == IF ref.typed THEN ref.type ELSE TargetType(setType, label) IN
  { o \in objs : o.origin = ref.origin /\ o.copy = ref.copy /\ o.name = ref.name /\ (tt = << >> \/ o.type = tt) }

(* ---------------- C07 on the decoded file -------------------------------- *)
IdentityClauses(dec) ==
  LET rgs == LfRanges(dec) IN
  UNION { LET rg   == rgs[k]
              objs == LfObjects(dec, rg)
              refs == LfRefs(dec, rg)
              orgs == { o.origin : o \in { x \in objs : x.type = sORIGIN } }
          IN (IF Cardinality({ Ident(o) : o \in objs }) = Cardinality(objs) THEN {} ELSE {"C07.IdentityUnique"})
        \cup (IF \A r \in refs : Cardinality(Candidates(objs, r.v, r.setType, r.label)) = 1 THEN {}
              ELSE Flag("C07.RefResolves", { << r.setType, r.label, r.v, Cardinality(Candidates(objs, r.v, r.setType, r.label)) >> : r \in { x \in refs : Cardinality(Candidates(objs, x.v, x.setType, x.label)) # 1 } }))
        \cup (IF \A o \in objs : o.type = sFILEHEADER \/ o.origin \in orgs THEN {} ELSE {"C07.OriginResolves"})
        \cup UNION { LET r == dec[i]
                         tt == IF r.type = 0 THEN sFRAME ELSE sNOFORMAT
                         c  == { o \in objs : o.type = tt /\ o.origin = r.origin /\ o.copy = r.copy /\ o.name = r.name }
                     IN IF Cardinality(c) # 1 THEN {"C07.RefResolves"}
                        ELSE IF \E o \in c : o.ri >= i THEN {"C09.DefinedBeforeIflr"} ELSE {}
                     : i \in { x \in rg.from..rg.to : dec[x].k = "I" /\ dec[x].ok } }
        : k \in DOMAIN rgs }

(* ---------------- C09 on the decoded file -------------------------------- *)
RJust(digits, w) == [i \in 1..w |-> IF i <= w - Len(digits) THEN 32 ELSE digits[i - (w - Len(digits))]]
LJust(s, w) == [i \in 1..w |-> IF i <= Len(s) THEN s[i] ELSE 32]

OneStr(a) == IF ~a.absent /\ Len(a.vals) = 1 /\ a.vals[1].k = "str" THEN a.vals[1].s ELSE << -1 >>

OrderClauses(dec) ==
  LET rgs == LfRanges(dec) IN
     (IF Len(dec) > 0 /\ (Len(rgs) = 0 \/ rgs[1].from # 1) THEN {"C09.HeaderFirst"} ELSE {})
  \cup UNION {
    LET rg  == rgs[k]
        hdr == dec[rg.from]
        efl == SelectSeq([i \in 1..(rg.to - rg.from + 1) |-> rg.from + i - 1], LAMBDA i : dec[i].k = "E")
        keys == { << dec[i].st, dec[i].hasName, dec[i].sn >> : i \in { efl[x] : x \in DOMAIN efl } }
        o1  == IF rg.from + 1 <= rg.to THEN dec[rg.from + 1] ELSE hdr
    IN (IF Len(hdr.objs) = 1 THEN {} ELSE {"C09.HeaderSingleObject"})
  \cup (IF rg.from + 1 <= rg.to /\ o1.k = "E" /\ o1.st = sORIGIN THEN {} ELSE {"C09.OriginNext"})
  \cup (IF rg.from + 1 <= rg.to /\ o1.k = "E" /\ o1.st = sORIGIN /\ Len(o1.objs) >= 1
        THEN (IF AttrOf(o1, o1.objs[1], lFILESETNUM).absent THEN {"C09.OriginFileSetNumber"} ELSE {})
        \cup (IF Len(hdr.objs) = 1 /\ Strip(OneStr(AttrOf(o1, o1.objs[1], lFILEID))) = Strip(OneStr(AttrOf(hdr, hdr.objs[1], lID)))
              THEN {} ELSE {"C09.OriginFileId"})
        ELSE {})
  \cup (IF Cardinality(keys) = Len(efl) THEN {} ELSE {"C09.SetUnique"})
  \cup (IF \A x \in DOMAIN efl : Len(dec[efl[x]].objs) >= 1 THEN {} ELSE {"C09.SetNonEmpty"})
    : k \in DOMAIN rgs }

=====================================================================================
