SPECIFICATION Spec
CONSTANTS
  MaxLf = 2
  MaxCalls = 6
  Names = {"A"}
  SetNames = {0, 1}
  Classes = {"ZONE", "PARAMETER"}
  OriginRefs = {0}
  RefFrom = "PARAMETER"
  RefTo = "ZONE"
  HeaderShare = TRUE
  OkSet = {TRUE, FALSE}
  ForeignRefCheck = TRUE
  HeaderSetCheck = TRUE
  Mutations = FALSE
  CopyRule = "firstfree"
  ItemRefs = {0, 7}
VIEW View
INVARIANT IdentityUnique
INVARIANT RefResolves
INVARIANT HeaderOwn
INVARIANT OriginResolves
INVARIANT Isolation
INVARIANT Completeness
INVARIANT ViewUnique
INVARIANT CopyNumbersDense
INVARIANT CopyNumbersDistinct
PROPERTY RejectedIsNoOp
CHECK_DEADLOCK FALSE
