--------------------------------- MODULE TraceSeg ---------------------------------
(***************************************************************************)
(* Conformance of the code to the implementation-shaped Segmenter model:   *)
(* the model is run by TLC on the inputs of recorded low-level writes and  *)
(* must produce the same outcome, the same file bytes and the same flush   *)
(* sequence as the real code did.  A difference is MODEL-DRIFT (reported,  *)
(* not a verdict: verdicts come from the normative clauses in TraceDlis).  *)
(***************************************************************************)
EXTENDS Segmenter, Json, IOUtils, TLCExt

ASSUME TLCSet(1, JsonDeserialize(IOEnv.TRACE_FILE).cases)
Cases == TLCGet(1)

DummyLen(c, n) == {}
DummyBuf(v) == {}

VARIABLES tid, flushlens, fin
tvars == << vars, tid, flushlens, fin >>

TInit ==
  /\ tid \in 1..Len(Cases)
  /\ vrl = Cases[tid].vrl
  /\ queue = [i \in DOMAIN Cases[tid].recs |-> [eflr |-> Cases[tid].recs[i].eflr, type |-> Cases[tid].recs[i].type, len |-> Cases[tid].recs[i].len]]
  /\ bufSize = IF Cases[tid].out_chunk = 0 THEN 1000000000 ELSE Cases[tid].out_chunk
  /\ r = 0 /\ start = 0 /\ remaining = 0 /\ pending = << >>
  /\ pc = "sul"
  /\ buf = << >> /\ disk = << >> /\ append = FALSE /\ total = 0 /\ emitted = << >> /\ nflush = 0
  /\ flushlens = << >> /\ fin = FALSE

Step ==
  /\ ~fin /\ pc \notin {"done", "raised"}
  /\ Next
  /\ flushlens' = IF nflush' # nflush THEN Append(flushlens, Len(disk')) ELSE flushlens
  /\ UNCHANGED << tid, fin >>

Report ==
  /\ ~fin /\ pc \in {"done", "raised"}
  /\ LET c == Cases[tid]
         same == IF pc = "raised" THEN c.outcome = "raised"
                 ELSE c.outcome = "ok" /\ c.bytes = disk /\ c.flushlens = flushlens
     IN PrintT(<< "DRIFT", c.id, same, pc, Len(disk), nflush >>)
  /\ fin' = TRUE
  /\ UNCHANGED << vars, tid, flushlens >>

TNext == Step \/ Report
TSpec == TInit /\ [][TNext]_tvars
===================================================================================
