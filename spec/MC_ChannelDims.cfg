SPECIFICATION Spec
CONSTANT Widths = {0, 1, 3, 70}
INVARIANT Truthful
INVARIANT Contradiction
INVARIANT Writable
CHECK_DEADLOCK FALSE
