SPECIFICATION TSpec
CONSTANTS
  VRLs = {}
  MaxRecs = 0
  LenSet <- DummyLen
  BufSizes <- DummyBuf
CHECK_DEADLOCK FALSE
