---------------------------------- MODULE SegArith ----------------------------------
(***************************************************************************)
(* The integer core of the splitting loop of make_segments / make_segment, *)
(* for UNBOUNDED capacity and record length (checked with Apalache as an   *)
(* inductive invariant; Segmenter.tla checks the same loop, with bytes,    *)
(* inside a bounded window).                                               *)
(*                                                                         *)
(*   cap    capacity of a segment body = max_record_length - 8             *)
(*   len    length of the record body                                      *)
(*   start  start_pos, rem  remaining_size                                 *)
(*   n      body bytes of the segment emitted last, size its total length  *)
(***************************************************************************)
EXTENDS Integers

VARIABLES
  \* @type: Int;
  cap,
  \* @type: Int;
  len,
  \* @type: Int;
  start,
  \* @type: Int;
  rem,
  \* @type: Int;
  n,
  \* @type: Int;
  size,
  \* @type: Bool;
  emitted

Min2(a, b) == IF a < b THEN a ELSE b

Init ==
  /\ cap \in Int /\ len \in Int
  /\ cap >= 12 /\ cap % 2 = 0 /\ len >= 0
  /\ start = 0 /\ rem = len /\ n = 0 /\ size = 0 /\ emitted = FALSE

Next ==
  /\ rem > 0
  /\ LET n0  == Min2(rem, cap)
         f0  == rem - n0
         sh  == 0 < f0 /\ f0 < 12
         nn  == IF sh THEN n0 - (12 - f0) ELSE n0
         ff  == IF sh THEN 12 ELSE f0
         l0  == nn + 4
         p0  == IF l0 % 2 = 1 THEN 1 ELSE 0
         pad == IF l0 + p0 < 16 THEN 16 - l0 ELSE p0
     IN /\ n' = nn /\ size' = l0 + pad /\ start' = start + nn /\ rem' = ff /\ emitted' = TRUE
  /\ UNCHANGED << cap, len >>

(* the inductive invariant: bookkeeping is lossless, every emitted segment is well-formed and fits a visible record *)
IndInv ==
  /\ cap >= 12 /\ cap % 2 = 0 /\ len >= 0
  /\ start >= 0 /\ rem >= 0 /\ start + rem = len
  /\ (emitted => /\ n >= 1 /\ n <= cap
                 /\ size % 2 = 0 /\ size >= 16 /\ size >= n + 4 /\ size <= cap + 4 /\ size - (n + 4) <= 12)
  /\ (~emitted => start = 0 /\ n = 0 /\ size = 0)

(* used as the initial predicate of the inductive step: any state satisfying the invariant *)
IndInit ==
  /\ cap \in Int /\ len \in Int /\ start \in Int /\ rem \in Int /\ n \in Int /\ size \in Int /\ emitted \in BOOLEAN
  /\ IndInv

(* progress: every step strictly shortens what remains (so the loop terminates) *)
Progress == [][rem' < rem]_<< cap, len, start, rem, n, size, emitted >>
=====================================================================================
