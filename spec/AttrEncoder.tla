--------------------------------- MODULE AttrEncoder ---------------------------------
(***************************************************************************)
(* Implementation-shaped model of how one attribute of an object is        *)
(* written (Attribute.convert_value / count / _write_for_body /             *)
(* _write_values and EFLRItem._make_attrs_bytes), checked against the       *)
(* normative component grammar RP66EFLR:                                    *)
(*                                                                         *)
(*   multivalued        the attribute accepts a list of values             *)
(*   given              what the caller assigns:                            *)
(*                      "none" | "scalar" | "empty" | "one" | "two" |       *)
(*                      "many" (130 values) | "nested" ([[x,y],[z,w]])     *)
(*   units              units assigned or not                              *)
(*   code               "explicit" (the attribute has a representation     *)
(*                      code) | "inferred" (guessed from the values;       *)
(*                      none when there is no value)                       *)
(*                                                                         *)
(* Every value is one byte (USHORT) - the arithmetic of the component does *)
(* not depend on what a value looks like.  One TLC state = one combination *)
(* after `Assign`; `Write` produces the bytes; the obligations decode them *)
(* with the grammar.                                                       *)
(***************************************************************************)
EXTENDS RP66EFLR, TLC

VARIABLES multivalued, multidim, given, units, code, pc, stored, rejected, bytes

vars == << multivalued, multidim, given, units, code, pc, stored, rejected, bytes >>

Givens == {"none", "scalar", "empty", "one", "two", "many", "nested"}
V(n) == [i \in 1..n |-> 7]        \* n one-byte values

Init ==
  /\ multivalued \in BOOLEAN /\ multidim \in BOOLEAN /\ (multidim => multivalued)
  /\ given \in Givens /\ units \in BOOLEAN /\ code \in {"explicit", "inferred"}
  /\ pc = "assign" /\ stored = [set |-> FALSE, list |-> FALSE, n |-> 0] /\ rejected = FALSE /\ bytes = << >>

(* Attribute.value setter -> convert_value                                  *)
Assign ==
  /\ pc = "assign"
  /\ LET isList == given \in {"empty", "one", "two", "many", "nested"}
         n == CASE given = "scalar" -> 1 [] given = "one" -> 1 [] given = "two" -> 2 [] given = "many" -> 130
                [] given = "nested" -> 4 [] OTHER -> 0
     IN IF given = "none" THEN stored' = [set |-> FALSE, list |-> FALSE, n |-> 0] /\ rejected' = FALSE
        ELSE IF multivalued
             THEN \* a scalar is wrapped into a list; nested lists are flattened when written, rejected unless multidimensional
                  IF given = "nested" /\ ~multidim
                  THEN stored' = stored /\ rejected' = TRUE
                  ELSE stored' = [set |-> TRUE, list |-> TRUE, n |-> n] /\ rejected' = FALSE
             ELSE IF isList THEN stored' = stored /\ rejected' = TRUE          \* single-valued: a list is refused
                  ELSE stored' = [set |-> TRUE, list |-> FALSE, n |-> 1] /\ rejected' = FALSE
  /\ pc' = "write"
  /\ UNCHANGED << multivalued, multidim, given, units, code, bytes >>

(* Attribute.count                                                          *)
Count == IF ~multivalued THEN 1 ELSE IF ~stored.set THEN -1 ELSE IF stored.list THEN stored.n ELSE 1

(* EFLRItem._make_attrs_bytes + Attribute.get_as_bytes                      *)
Write ==
  /\ pc = "write"
  /\ IF ~stored.set
     THEN bytes' = << 0 >>                                   \* absent attribute
     ELSE LET cnt     == Count
              hasCnt  == cnt # -1 /\ cnt # 1
              hasCode == code = "explicit" \/ stored.n > 0    \* inferred: none for an empty list
              hasVal  == ~(stored.list /\ stored.n = 0)
              descr   == 32 + (IF hasCnt THEN 8 ELSE 0) + (IF hasCode THEN 4 ELSE 0) + (IF units THEN 2 ELSE 0) + (IF hasVal THEN 1 ELSE 0)
          IN bytes' = << descr >> \o (IF hasCnt THEN EncUvariNat(cnt) ELSE << >>) \o (IF hasCode THEN << USHORT >> ELSE << >>)
                      \o (IF units THEN EncIdent(<< 109 >>) ELSE << >>) \o (IF hasVal THEN V(stored.n) ELSE << >>)
  /\ pc' = "done"
  /\ UNCHANGED << multivalued, multidim, given, units, code, stored, rejected >>

Next == Assign \/ Write
Spec == Init /\ [][Next]_vars

(* ======================= obligations (C04, C05) ========================== *)
(* the template attribute of this writer: label only - count 1, IDENT, no units, no value *)
Tmpl == [DefaultAttr EXCEPT !.label = << 76 >>]

(* what the caller assigned, as a number of values (-1: nothing / rejected) *)
Assigned == IF rejected \/ given = "none" THEN -1
            ELSE CASE given = "scalar" -> 1 [] given = "empty" -> 0 [] given = "one" -> 1 [] given = "two" -> 2
                   [] given = "many" -> 130 [] given = "nested" -> 4

Decoded == IF bytes[1] = 0 THEN [absent |-> TRUE, bad |-> {}, a |-> DefaultAttr, next |-> 2]
           ELSE LET c == AttrComponent(bytes, 1, Tmpl, TRUE) IN [absent |-> FALSE, bad |-> c.bad, a |-> c.a, next |-> c.next]

(* C04: the component decodes with no bytes left over, count = number of values encoded, nothing announced and omitted *)
GrammarOk ==
  pc = "done" => /\ Decoded.bad = {}
                 /\ Decoded.next = Len(bytes) + 1
                 /\ (~Decoded.absent => (Decoded.a.hasValue => Decoded.a.len = Decoded.a.count))

(* C05: what was assigned is what a reader gets: the number of values, the units; nothing assigned = absent *)
Faithful ==
  pc = "done" =>
     IF Assigned = -1 THEN Decoded.absent
     ELSE IF Assigned = 0 THEN (Decoded.absent \/ (Decoded.a.count = 0 /\ ~Decoded.a.hasValue))
     ELSE /\ ~Decoded.absent /\ Decoded.a.hasValue /\ Decoded.a.count = Assigned
          /\ (units => Decoded.a.units = << 109 >>) /\ (~units => Decoded.a.units = << >>)
          /\ Decoded.a.code = USHORT

(* C12: a value that cannot be represented (list for a single-valued attribute) is refused, not written *)
FailClosed == (pc = "done" /\ rejected) => Decoded.absent
=====================================================================================
