SPECIFICATION Spec
CONSTANTS
  MaxLf = 2
  MaxCalls = 8
  Names = {"A", "B"}
  SetNames = {0, 1}
  Classes = {"ZONE", "PARAMETER"}
  OriginRefs = {0, 1}
  RefFrom = "PARAMETER"
  RefTo = "ZONE"
  HeaderShare = FALSE
  OkSet = {TRUE, FALSE}
  ForeignRefCheck = TRUE
  HeaderSetCheck = TRUE
  Mutations = TRUE
  CopyRule = "firstfree"
  ItemRefs = {0, 7}
INVARIANT PrintLeaf
CHECK_DEADLOCK FALSE
