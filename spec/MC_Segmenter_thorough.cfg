SPECIFICATION Spec
CONSTANTS
  VRLs <- VRLThorough
  MaxRecs = 3
  LenSet <- LenThorough
  BufSizes <- BufThorough
INVARIANT Writable
INVARIANT FinalWellFormed
INVARIANT DiskOnBoundary
INVARIANT ChunkInvisible
INVARIANT TotalIsSize
INVARIANT BufferBounded
PROPERTY DiskIsPrefix
CHECK_DEADLOCK FALSE
